/-
  C14 — `--take` stops reading.
-/
import Jawk.Model.Run
namespace Jawk.C14
open Jawk

variable (orc : Oracles) (sink : SinkCfg) (n : Nat)

/-- the limiter answers `Break` on the row that fills the limit, and on every row after it -/
theorem limiter_breaks_when_full (skip limit skipped passed : Nat) (cs : List StageCfg) (sts : List StageSt)
    (w : Writer) (ctx : Ctx) (hs : ¬ skipped < skip) (hfull : passed ≥ limit) :
    process orc sink n (.limit skip (some limit) :: cs) (.limit skipped passed :: sts) w ctx =
      .ok (⟨.limit skipped passed :: sts, w⟩, .brk) := by
  simp [process, hs, hfull]

theorem limiter_breaks_on_last (skip limit skipped passed : Nat) (cs : List StageCfg) (sts : List StageSt)
    (w : Writer) (ctx : Ctx) (p : PState) (d : Decision) (hs : ¬ skipped < skip) (hroom : ¬ passed ≥ limit)
    (hlast : passed + 1 ≥ limit) (hnext : process orc sink n cs sts w ctx = .ok (p, d)) :
    process orc sink n (.limit skip (some limit) :: cs) (.limit skipped passed :: sts) w ctx =
      .ok (⟨.limit skipped (passed + 1) :: p.sts, p.w⟩, .brk) := by
  simp [process, hs, hroom, hnext, hlast, bind, Except.bind]

/-! every streaming stage upstream of the limiter returns its successor's decision -/

theorem preset_propagates (vars : List (Str × JV)) (defs : List (Str × Expr)) (cs : List StageCfg)
    (st : StageSt) (sts : List StageSt) (w : Writer) (ctx : Ctx) (p : PState) (d : Decision)
    (h : process orc sink n cs sts w ((ctx.withVariables vars).withDefinitions defs) = .ok (p, d)) :
    process orc sink n (.preset vars defs :: cs) (st :: sts) w ctx = .ok (⟨st :: p.sts, p.w⟩, d) := by
  simp [process, h, bind, Except.bind]

theorem filter_propagates (e : Expr) (cs : List StageCfg) (st : StageSt) (sts : List StageSt) (w : Writer)
    (ctx : Ctx) (p : PState) (d : Decision) (hv : eval orc evalFuel e ctx = .ok (some (.bool true)))
    (h : process orc sink n cs sts w ctx = .ok (p, d)) :
    process orc sink n (.filter e :: cs) (st :: sts) w ctx = .ok (⟨st :: p.sts, p.w⟩, d) := by
  simp [process, evalE, liftR, hv, h, bind, Except.bind]

theorem select_propagates (name : Str) (e : Expr) (cs : List StageCfg) (st : StageSt) (sts : List StageSt)
    (w : Writer) (ctx : Ctx) (p : PState) (d : Decision) (r : Option JV)
    (hv : eval orc evalFuel e ctx = .ok r)
    (h : process orc sink n cs sts w (ctx.withResult name r) = .ok (p, d)) :
    process orc sink n (.select name e :: cs) (st :: sts) w ctx = .ok (⟨st :: p.sts, p.w⟩, d) := by
  simp [process, evalE, liftR, hv, h, bind, Except.bind]

theorem unique_propagates (cs : List StageCfg) (seen : List CtxKey) (sts : List StageSt) (w : Writer)
    (ctx : Ctx) (p : PState) (d : Decision) (hnew : (seen.any fun s => CtxKey.same s ctx.key) = false)
    (h : process orc sink n cs sts w ctx = .ok (p, d)) :
    process orc sink n (.unique :: cs) (.unique seen :: sts) w ctx =
      .ok (⟨.unique (seen ++ [ctx.key]) :: p.sts, p.w⟩, d) := by
  simp [process, hnew, h, bind, Except.bind]

/-- the split loop stops at the first `Break` and returns it: later elements are not processed -/
theorem splitter_stops_at_break (next : List StageSt → Writer → Ctx → Res (PState × Decision))
    (sts : List StageSt) (w : Writer) (c : Ctx) (rest : List Ctx) (p : PState)
    (h : next sts w c = .ok (p, .brk)) :
    feedUntilBreak next sts w (c :: rest) = .ok (p, .brk) := by
  simp [feedUntilBreak, h, bind, Except.bind]

theorem split_propagates (e : Expr) (cs : List StageCfg) (st : StageSt) (sts : List StageSt) (w : Writer)
    (ctx : Ctx) (l : List JV) (p : PState) (d : Decision)
    (hv : eval orc evalFuel e ctx = .ok (some (.arr l)))
    (h : feedUntilBreak (process orc sink n cs) sts w (l.map ctx.withInput) = .ok (p, d)) :
    process orc sink n (.split e :: cs) (st :: sts) w ctx = .ok (⟨st :: p.sts, p.w⟩, d) := by
  simp [process, evalE, liftR, hv, h, bind, Except.bind]

/-- the read loop ends at the first `Break`: the reader is left exactly after the value that
produced it (plus the single look-ahead byte the parser had to pull), and no later byte of the
input is ever requested — whatever follows, finite or not -/
theorem read_loop_stops_at_break (c : Cfg) (p : Pipeline) (fuel : Nat) (r r' : Reader) (inFile : Nat)
    (s : RunState) (v : JV) (ps : PState)
    (hv : r.nextJson = (.ok (some v), r'))
    (hkeep : (c.onlyObjectsAndArrays && !v.isObjOrArr) = false)
    (hb : process orc p.sink p.sinkLen p.cfgs s.sts s.out
            { input := v, ictx := some { startLoc := r.loc, endLoc := r'.loc, fileIndex := inFile, index := s.index } }
          = .ok (ps, .brk)) :
    readLoop orc c p (fuel + 1) r inFile s = .ok ({ s with sts := ps.sts, out := ps.w }, r', .brk) := by
  rw [readLoop]
  simp [hv, hkeep, hb]

/-- after a `Break` no further source is opened -/
theorem files_after_break_not_opened (c : Cfg) (p : Pipeline) (src : Source) (rest : List Source) (s s' : RunState)
    (r' : Reader)
    (h : readLoop orc c p (src.items.length + 2) (Reader.ofItems src.items src.name) 0 s = .ok (s', r', .brk)) :
    readSources orc c p (src :: rest) s = .ok { s' with pulled := s'.pulled ++ [r'.pulled] } := by
  simp [readSources, h]

end Jawk.C14
