/-
  C15 — csv/text rows have one field per selection; csv is machine-readable.

  Theorems over the model of the text printer (`textRow`, `textField`, `textString`) with the csv
  preset REGENERATED from `TextOutputOptions::csv()` on every run (`Jawk/Generated/Presets.lean`,
  `csvOpts`), and an RFC 4180 record reader written for this purpose (`Jawk/Spec/Csv.lean`,
  skip-one-blank-after-comma dialect).  Helper lemmas: `Jawk/Lemmas/CsvRoundTrip.lean`.
-/
import Jawk.Lemmas.CsvRoundTrip
import Jawk.Props.Tables
namespace Jawk.C15
open Jawk CsvRT

/-- a printed row is its fields joined by the item separator, then the row separator
(any text options, any values, absent ones included) -/
theorem row_is_intercalate (o : TextOpts) (rowSep : Str) (vals : List (Option JV)) :
    (textRow o rowSep vals.length vals).flatten
      = utf8 (List.intercalate o.itemsSep (vals.map (textField o)) ++ rowSep) :=
  CsvRT.row_is_intercalate o rowSep vals

/-- the regenerated csv preset has the shape the round trip needs: `, ` separator, `"`…`"` around
strings, `"` doubled and nothing else escaped, keywords free of quote / comma / line break,
absent value = empty field, header on -/
theorem csvPreset_ok :
    csvOpts.itemsSep = ", ".toList ∧ csvOpts.strPrefix = ['"'] ∧ csvOpts.strPostfix = ['"'] ∧
    csvOpts.headers = true ∧ escapeLookup csvOpts.escapes '"' = some ['"', '"'] ∧
    (∀ c, c ≠ '"' → escapeLookup csvOpts.escapes c = none) ∧ csvOpts.missingKw = none := by
  have h := CsvRT.csvPreset_ok
  exact ⟨h.1, h.2.1, h.2.2.1, h.2.2.2.1, h.2.2.2.2.1, h.2.2.2.2.2.1, h.2.2.2.2.2.2.2.2.2.2.2.2⟩

/-- a string field survives whatever it contains: quotes, commas, CR, LF -/
theorem quoted_field_roundtrip (s : Str) (rest : List Char) (hr : rest.head? ≠ some '"') :
    Csv.quotedTail (dbl s ++ '"' :: rest) = some (s, rest) := CsvRT.quotedTail_dbl s rest hr

/-- every number prints without quote, comma or line break — doubles included -/
theorem numbers_are_plain (n : Num) : Plain (printNum n) := CsvRT.plain_printNum_all n

/-- MAIN: an RFC 4180 reader recovers, field for field, what was selected: string contents verbatim,
the decimal spelling of numbers, `null` / `True` / `False`, the concise JSON text of arrays and
objects, an empty field for an absent value — for every row of every length ≥ 1 -/
theorem csv_roundtrip (vals : List (Option JV)) (hne : vals ≠ []) (rest : List Char) :
    Csv.readRecord (rowText csvOpts ['\n'] vals ++ rest) = some (vals.map csvField, rest) :=
  CsvRT.csv_row_roundtrip vals hne rest

/-- exactly one field per selection -/
theorem field_count (vals : List (Option JV)) (hne : vals ≠ []) (rest : List Char) :
    ∃ fields, Csv.readRecord (rowText csvOpts ['\n'] vals ++ rest) = some (fields, rest)
      ∧ fields.length = vals.length := CsvRT.field_count vals hne rest

/-- a whole csv output (any number of rows) reads back row for row -/
theorem csv_rows_roundtrip (rows : List (List (Option JV))) (hne : ∀ r ∈ rows, r ≠ []) :
    Csv.readAll (rows.flatMap (rowText csvOpts ['\n'])) = some (rows.map (·.map csvField)) :=
  CsvRT.csv_rows_roundtrip rows hne

/-- the header row lists the selection names in order (it is the row of the titles as strings) … -/
theorem header_row (sep : Str) (titles : List Str) (w : Writer) (ht : titles ≠ [])
    (hr : w.room = none) (hf : w.failed = false) :
    sinkStart (.text csvOpts sep) titles w
      = .ok { w with out := w.out ++ utf8 (rowText csvOpts sep (titles.map (some ∘ JV.str))) } :=
  CsvRT.header_row_unbounded sep titles w ht hr hf

/-- … and reads back as exactly those names -/
theorem header_reads_back (titles : List Str) (ht : titles ≠ []) (rest : List Char) :
    Csv.readRecord (rowText csvOpts ['\n'] (titles.map (some ∘ JV.str)) ++ rest)
      = some (titles.map (fun t => (true, t)), rest) := CsvRT.header_reads_back titles ht rest

/-- a data row written by the text sink is the row text of the selected values -/
theorem data_row (o : TextOpts) (sep : Str) (w : Writer) (ctx : Ctx)
    (hne : ctx.toList ≠ []) (hr : w.room = none) (hf : w.failed = false) :
    sinkProcess (.text o sep) ctx.toList.length w ctx
      = .ok { w with out := w.out ++ utf8 (rowText o sep ctx.toList) } :=
  CsvRT.data_row_unbounded o sep w ctx hne hr hf

/-! ### non-vacuity: a row with a quote, a comma, a line break, an array, an absent value -/
example : Csv.readRecord (rowText csvOpts ['\n']
    [some (.str "x\"y,z\nw".toList), some (.arr [.num (.pos 1)]), some .null, none, some (.bool true)])
    = some ([(true, "x\"y,z\nw".toList), (true, "[1]".toList), (false, "null".toList), (false, []),
             (false, "True".toList)], []) := by
  have := csv_roundtrip [some (.str "x\"y,z\nw".toList), some (.arr [.num (.pos 1)]), some .null, none, some (.bool true)]
    (by simp) []
  have h1 : Nat.toDigits 10 1 = ['1'] := by decide
  simpa [h1, csvField, printJson, printJsonAt, printElems, printNum, indentText, commaText] using this

end Jawk.C15
