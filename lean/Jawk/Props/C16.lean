/-
  C16 — read and write failures stop the run with an error, never a panic or silent loss.

  Step level (`Jawk/Props/C16Steps.lean`): all read-event schedules (`Interrupted`, short reads) and all write
  failure offsets of the modelled `Read` / `Write`.  Run level (this file, helper `Jawk/Lemmas/Locality.lean`):
  a fault item anywhere in a source is fatal under EVERY `--on-error` policy the moment it is pulled, no report is
  written for it, both output logs only ever grow, and what was written before the fault is a prefix of what the
  fault-free run writes.
-/
import Jawk.Props.C16Steps
import Jawk.Lemmas.Locality
import Jawk.Lemmas.WriteAll
namespace Jawk.C16
open Jawk Loc

variable (orc : Oracles) (c : Cfg) (p : Pipeline)

/-- a read fault is never skipped like a malformed value nor mistaken for the end of input: a parser call either
leaves it unread or returns the I/O error, consuming exactly up to it -/
theorem fault_is_not_skipped (r : Reader) (post : List RItem) (hs : (RItem.err :: post) <:+ r.rest) :
    (RItem.err :: post) <:+ r.nextJson.2.rest ∨ (r.nextJson.1 = .error .io ∧ r.nextJson.2.rest = post) :=
  nextJson_fault r post hs

/-- MAIN: from any configuration of the read loop with a fault ahead: the loop reaches a configuration with the
fault still ahead and both logs extended, and then EITHER the next call returns the I/O error and the loop ends
with `.error .io` in exactly that state (no report, whatever the policy) OR the loop had already ended (Break,
or an earlier error) without pulling it -/
theorem read_error_is_fatal_run (fuel : Nat) (k : Conf) (post : List RItem)
    (hs : (RItem.err :: post) <:+ k.r.rest) :
    ∃ k', Reach orc c p k k' ∧ (RItem.err :: post) <:+ k'.r.rest ∧
      k.s.out.out <+: k'.s.out.out ∧ k.s.err.out <+: k'.s.err.out ∧
      ((k'.r.nextJson.1 = .error .io ∧ k'.r.nextJson.2.rest = post ∧
          readLoop orc c p fuel k.r k.inFile k.s = .error ⟨.error .io,
            { k'.s with pulled := k.s.pulled ++ [k.r.pulled + (k.r.rest.length - post.length)] }⟩) ∨
       (∃ s' r' d, readLoop orc c p fuel k.r k.inFile k.s = .ok (s', r', d) ∧ (RItem.err :: post) <:+ r'.rest) ∨
       (∃ e, readLoop orc c p fuel k.r k.inFile k.s = .error e ∧
          (e.st.pulled = k.s.pulled ∨
           ∃ n, e.st.pulled = k.s.pulled ++ [n] ∧ n < k.r.pulled + (k.r.rest.length - post.length)))) :=
  Loc.read_error_is_fatal_run orc c p fuel k post hs

/-- nothing written is ever taken back: for every configuration, every input, every writer (bounded or not), the
bytes on stdout / stderr at the start are a prefix of those at the end -/
theorem output_only_grows (sources : List Source) (wOut wErr : Writer) :
    wOut.out <+: (run orc c sources wOut wErr).stdout ∧ wErr.out <+: (run orc c sources wOut wErr).stderr :=
  run_out_monotone orc c sources wOut wErr

/-- streaming prefix: when the run over `pre ++ fault ++ post` ends at the fault, its result is the I/O error and
its stdout and stderr are PREFIXES of those of the run over `pre ++ cont` for every fault-free or faulty
continuation `cont` — whatever reached the output before the failure is a prefix of the fault-free output -/
theorem streaming_prefix (name : Option Str) (pre post cont : List RItem) (rest rest₂ : List Source)
    (wOut wErr w0 : Writer) (e : RunEnd)
    (hb : build orc c = .ok p) (hs : sinkStart p.sink p.titles wOut = .ok w0)
    (h : readLoop orc c p ((pre ++ RItem.err :: post).length + 2) (Reader.ofItems (pre ++ RItem.err :: post) name) 0
          { sts := p.sts, out := w0, err := wErr } = .error e)
    (hp : e.st.pulled = [pre.length + 1]) :
    (run orc c (⟨name, pre ++ RItem.err :: post⟩ :: rest) wOut wErr).result = .error .io ∧
    (run orc c (⟨name, pre ++ RItem.err :: post⟩ :: rest) wOut wErr).stdout
      <+: (run orc c (⟨name, pre ++ cont⟩ :: rest₂) wOut wErr).stdout ∧
    (run orc c (⟨name, pre ++ RItem.err :: post⟩ :: rest) wOut wErr).stderr
      <+: (run orc c (⟨name, pre ++ cont⟩ :: rest₂) wOut wErr).stderr :=
  streaming_prefix_run orc c p name pre post cont rest rest₂ wOut wErr w0 e hb hs h hp

/-! ### what `Writer.put` stands for -/

/-- `Writer.put` models `write_all`: over a descriptor that takes ANY non-empty prefix of what it is offered, the loop
delivers exactly the bytes, in order — which is `put` on a descriptor with room.  (The correspondence run's writers do
accept only part of an offer now and then; a bare `write` whose count is ignored would lose the rest: `WriteAll.bare_write_loses`.) -/
theorem write_all_delivers (pol : WriteAll.Policy) (w : Writer) (bs : List Byte) (hw : w.failed = false) (hr : w.room = none) :
    WriteAll.writeAll pol bs.length w.out bs = (w.put bs).out :=
  WriteAll.writeAll_is_put pol w bs hw hr

end Jawk.C16
