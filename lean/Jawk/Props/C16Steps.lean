/-
  C16 — read and write failures stop the run with an error, never a panic or silent loss.
-/
import Jawk.Model.Run
import Jawk.Lemmas.PM
namespace Jawk.C16
open Jawk Reader

/-! ### Reads: `Interrupted` results and short reads are invisible -/

/-- no `Ok(0)` in the middle, no error: the events are just a chunking with retries -/
def CleanEvents : List ReadEvent → Prop
  | [] => True
  | .data [] :: _ => False
  | .data (_ :: _) :: rest => CleanEvents rest
  | .interrupted :: rest => CleanEvents rest
  | .error :: _ => False

def flattenEvents : List ReadEvent → List Byte
  | [] => []
  | .data bs :: rest => bs ++ flattenEvents rest
  | _ :: rest => flattenEvents rest

/-- any delivery of the same bytes (any chunk sizes, any number of `Interrupted` results)
gives the parser the same byte sequence -/
theorem interrupted_and_short_reads_invisible (ev : List ReadEvent) (h : CleanEvents ev) :
    bytesOf ev = cleanInput (flattenEvents ev) := by
  induction ev with
  | nil => rfl
  | cons e rest ih =>
    cases e with
    | data bs =>
      cases bs with
      | nil => exact absurd h (by simp [CleanEvents])
      | cons b bs =>
        simp only [CleanEvents] at h
        simp [bytesOf, flattenEvents, cleanInput, ih h]
    | interrupted =>
      simp only [CleanEvents] at h
      simp [bytesOf, flattenEvents, ih h]
    | error => exact absurd h (by simp [CleanEvents])

/-- a read error surfaces as one `err` item after exactly the bytes delivered before it, and
nothing after it is ever read -/
theorem read_error_surfaces_once (ev : List ReadEvent) (after : List ReadEvent) (h : CleanEvents ev) :
    bytesOf (ev ++ .error :: after) = cleanInput (flattenEvents ev) ++ [RItem.err] := by
  induction ev with
  | nil => rfl
  | cons e rest ih =>
    cases e with
    | data bs =>
      cases bs with
      | nil => exact absurd h (by simp [CleanEvents])
      | cons b bs =>
        simp only [CleanEvents] at h
        simp [bytesOf, flattenEvents, cleanInput, ih h]
    | interrupted =>
      simp only [CleanEvents] at h
      simp [bytesOf, flattenEvents, ih h]
    | error => exact absurd h (by simp [CleanEvents])

/-- the reader turns the `err` item into the unrecoverable `io` error -/
theorem next_on_error_item (r : Reader) (rest : List RItem) (he : r.eof = false) (hr : r.rest = .err :: rest) :
    (Reader.next r).1 = .error .io := by
  simp [Reader.next, he, hr]

theorem io_cannot_recover : PErr.io.canRecover = false := rfl

/-- an unrecoverable reader error ends the run with an I/O error under every `--on-error`
policy: it is neither skipped like a malformed value nor mistaken for the end of input, no
report line is written for it, and what had been written so far stays written -/
theorem read_error_is_fatal (orc : Oracles) (c : Cfg) (p : Pipeline) (fuel : Nat) (r r' : Reader) (inFile : Nat)
    (s : RunState) (hn : r.nextJson = (.error .io, r')) :
    ∃ st, readLoop orc c p (fuel + 1) r inFile s = .error ⟨.error .io, st⟩ ∧ st.out = s.out ∧ st.err = s.err := by
  rw [readLoop]
  simp [hn, PErr.canRecover]

/-! ### Writes -/

/-- a writer's log only grows -/
theorem put_prefix (w : Writer) (bs : List Byte) : w.out <+: (w.put bs).out := by
  unfold Writer.put
  split
  · exact List.prefix_refl _
  · split
    · exact List.prefix_append _ _
    · split
      · exact List.prefix_append _ _
      · exact List.prefix_append _ _

/-- once failed, always failed, and nothing more is written -/
theorem put_after_failure (w : Writer) (bs : List Byte) (h : w.failed = true) : w.put bs = w := by
  simp [Writer.put, h]

/-- a write that does not fit writes exactly the bytes before the failing offset and fails -/
theorem put_partial (w : Writer) (bs : List Byte) (k : Nat) (hf : w.failed = false) (hr : w.room = some k)
    (hlen : k < bs.length) :
    (w.put bs).out = w.out ++ bs.take k ∧ (w.put bs).failed = true := by
  simp [Writer.put, hf, hr, Nat.not_le.mpr hlen]

/-- an unbounded writer never fails -/
theorem put_unbounded (w : Writer) (bs : List Byte) (hf : w.failed = false) (hr : w.room = none) :
    (w.put bs).out = w.out ++ bs ∧ (w.put bs).failed = false ∧ (w.put bs).room = none := by
  simp [Writer.put, hf, hr]

/-- writing a list of chunks only extends the log -/
theorem putAll_prefix (chunks : List (List Byte)) (w : Writer) : w.out <+: (putAll w chunks).out := by
  induction chunks generalizing w with
  | nil => exact List.prefix_refl _
  | cons c cs ih =>
    simp only [putAll, List.foldl_cons]
    exact List.IsPrefix.trans (put_prefix w c) (ih (w.put c))

theorem wres_error (w : Writer) (f : Failure) (h : wres w = .error f) : f.kind = .io ∧ f.w = w := by
  unfold wres at h
  split at h
  · cases h; exact ⟨rfl, rfl⟩
  · cases h

/-- a failed write of a row ends `process` at the sink with an I/O error (never a panic),
and the failure carries the bytes written so far -/
theorem write_error_is_fatal_at_sink (s : SinkCfg) (len : Nat) (w : Writer) (ctx : Ctx) (f : Failure)
    (h : sinkProcess s len w ctx = .error f) : f.kind = .io ∧ w.out <+: f.w.out := by
  unfold sinkProcess at h
  cases s with
  | json o sep =>
    obtain ⟨hk, hw⟩ := wres_error _ f h
    exact ⟨hk, hw ▸ putAll_prefix _ w⟩
  | text o sep =>
    simp only at h
    split at h
    · obtain ⟨hk, hw⟩ := wres_error _ f h
      exact ⟨hk, hw ▸ putAll_prefix _ w⟩
    · obtain ⟨hk, hw⟩ := wres_error _ f h
      exact ⟨hk, hw ▸ putAll_prefix _ w⟩

/-- non-vacuity -/
example : CleanEvents [.data [1, 2], .interrupted, .data [3]] := by simp [CleanEvents]
example : bytesOf [.data [1, 2], .interrupted, .error, .data [9]] = [.byte 1, .byte 2, .err] := by decide

end Jawk.C16
