/-
  C17 — delivery-independent input; files stay separate; the input context is exact.

  `Jawk/Props/C17Steps.lean`: chunking invisible, stdin = file, per-byte location tracking, ordinals exact for
  whole runs, files concatenate.  This file (helper `Jawk/Lemmas/Locality.lean`): the closed form of line/column,
  the tiling of consecutive ranges, what a range contains — and the precise statement of finding F11.
-/
import Jawk.Props.C17Steps
import Jawk.Lemmas.Locality
import Jawk.Props.Tables
namespace Jawk.C17
open Jawk Loc

/-- after pulling `n` items of a source, the reader's location is: line = 1 + number of LF among the bytes pulled,
column = 1 + number of bytes since the last LF, file name = the source's — an invariant of every parser action -/
theorem location_is_lineCol {items : List RItem} {name : Option Str} {r : Reader} (h : LocInv items name r) :
    r.rest = items.drop r.pulled ∧ r.pulled ≤ items.length ∧ r.loc.name = name ∧
    r.loc.line = 1 + (itemBytes (items.take r.pulled)).count 10 ∧
    r.loc.col = 1 + ((itemBytes (items.take r.pulled)).reverse.takeWhile (· ≠ 10)).length :=
  Loc.location_is_lineCol h

theorem location_invariant (items : List RItem) (name : Option Str) :
    LocInv items name (Reader.ofItems items name) ∧
    ∀ r, LocInv items name r → LocInv items name r.nextJson.2 :=
  ⟨locInv_ofItems items name, fun _ h => nextJson_locInv h⟩

/-- consecutive ranges are contiguous (`ended k = started (k+1)`) and the first starts at `name:1:1`, when no
malformed region and no dropped scalar lies between the values -/
theorem ranges_tile (c : Cfg) (src : Source) (idx : Nat)
    (h : AllRows c (src.items.length + 2) (Reader.ofItems src.items src.name)) :
    let cs := RunSpec.ctxsOf c (src.items.length + 2) (Reader.ofItems src.items src.name) 0 idx
    (∀ k (hk : k + 1 < cs.length), ∃ a b, cs[k].ictx = some a ∧ cs[k + 1].ictx = some b ∧ a.endLoc = b.startLoc) ∧
    (∀ hk : 0 < cs.length, ∃ a, cs[0].ictx = some a ∧ a.startLoc = { name := src.name, line := 1, col := 1 }) :=
  ranges_tile_source c src idx h

/-- the range delimits the value's text (and the single byte after it) when the call starts without a look-ahead
byte; with one — a value that TOUCHES the previous token — the range misses the value's first byte: that is the
known finding F11, stated exactly by `Loc.range_contains_text_general` -/
theorem range_contains_text (r : Reader) (hc : r.cur = none) {x : Option JV} {r' : Reader}
    (h : r.nextJson = (.ok x, r')) :
    ∃ consumed, r.rest = consumed ++ r'.pending ∧
      r.rest.take (r'.pulled - r.pulled) = consumed ++ curItems r' := Loc.range_contains_text r hc h

end Jawk.C17
