/-
  C17 — delivery-independent input; files stay separate; the input context is exact.
-/
import Jawk.Lemmas.RunSpec
import Jawk.Model.Run
import Jawk.Props.C16Steps
namespace Jawk.C17
open Jawk Reader

variable (orc : Oracles)

/-- The run only sees `bytesOf events`: two deliveries of the same bytes (any chunking, any
`Interrupted` results) give the same run — same rows, same reports, same result. -/
theorem chunking_invisible (c : Cfg) (name : Option Str) (ev₁ ev₂ : List ReadEvent) (wOut wErr : Writer)
    (h₁ : C16.CleanEvents ev₁) (h₂ : C16.CleanEvents ev₂)
    (hsame : C16.flattenEvents ev₁ = C16.flattenEvents ev₂) :
    run orc c [⟨name, bytesOf ev₁⟩] wOut wErr = run orc c [⟨name, bytesOf ev₂⟩] wOut wErr := by
  rw [C16.interrupted_and_short_reads_invisible ev₁ h₁, C16.interrupted_and_short_reads_invisible ev₂ h₂, hsame]

/-- stdin and a file holding the same bytes differ only in the reader's name (`&file-name`) -/
theorem stdin_or_file_same_items (bs : List Byte) (n : Str) :
    (Reader.ofBytes bs none).rest = (Reader.ofBytes bs (some n)).rest ∧
    (Reader.ofBytes bs none).loc.line = (Reader.ofBytes bs (some n)).loc.line ∧
    (Reader.ofBytes bs none).loc.col = (Reader.ofBytes bs (some n)).loc.col := ⟨rfl, rfl, rfl⟩

/-! ### Line / column bookkeeping -/

/-- line = 1 + number of LF consumed; column = 1 + bytes consumed since the last LF -/
def lineColStep (lc : Nat × Nat) (b : Byte) : Nat × Nat :=
  if b = 10 then (lc.1 + 1, 1) else (lc.1, lc.2 + 1)

def lineCol (consumed : List Byte) : Nat × Nat := consumed.foldl lineColStep (1, 1)

/-- the reader's location tracks the consumed bytes -/
def Tracks (r : Reader) (consumed : List Byte) : Prop := (r.loc.line, r.loc.col) = lineCol consumed

theorem tracks_initial (items : List RItem) (name : Option Str) : Tracks (Reader.ofItems items name) [] := rfl

theorem next_tracks (r r' : Reader) (b : Byte) (consumed : List Byte) (h : Tracks r consumed)
    (hn : Reader.next r = (.ok (some b), r')) : Tracks r' (consumed ++ [b]) := by
  unfold Tracks lineCol at *
  rw [List.foldl_append, ← h]
  unfold Reader.next at hn
  split at hn
  · cases hn
  · split at hn
    · cases hn
    · cases hn
    · rename_i b' rest heq
      simp only [Prod.mk.injEq, Except.ok.injEq, Option.some.injEq] at hn
      obtain ⟨hb, hr⟩ := hn
      subst hr hb
      simp only [List.foldl_cons, List.foldl_nil, lineColStep]
      split <;> simp_all

/-- the name of the reader (the file name) never changes while reading -/
theorem next_keeps_name (r r' : Reader) (x : Except PErr (Option Byte)) (hn : Reader.next r = (x, r')) :
    r'.loc.name = r.loc.name := by
  unfold Reader.next at hn
  split at hn
  · cases hn; rfl
  · split at hn
    · cases hn; rfl
    · cases hn; rfl
    · cases hn
      split <;> rfl

/-- the `pulled` counter counts exactly the items taken from the stream -/
theorem next_pulled (r r' : Reader) (b : Byte) (hn : Reader.next r = (.ok (some b), r')) :
    r'.pulled = r.pulled + 1 ∧ r.rest = .byte b :: r'.rest := by
  unfold Reader.next at hn
  split at hn
  · cases hn
  · split at hn
    · cases hn
    · cases hn
    · rename_i b' rest heq
      simp only [Prod.mk.injEq, Except.ok.injEq, Option.some.injEq] at hn
      obtain ⟨hb, hr⟩ := hn
      subst hr hb
      exact ⟨rfl, heq⟩

/-! ### Ordinals, file boundaries, contiguous ranges -/

/-- The context handed to the pipeline for a value carries: `&index` = number of values
processed so far in the run, `&index-in-file` = number processed so far in this file, the
reader's location before the value as start and after it as end; after a `Continue` both
ordinals grow by one and the next value's start is this value's end (ranges tile). -/
theorem value_context_exact (c : Cfg) (p : Pipeline) (fuel : Nat) (r r' : Reader) (inFile : Nat)
    (s : RunState) (v : JV) (ps : PState)
    (hv : r.nextJson = (.ok (some v), r')) (hkeep : (c.onlyObjectsAndArrays && !v.isObjOrArr) = false)
    (hp : process orc p.sink p.sinkLen p.cfgs s.sts s.out
            { input := v, ictx := some { startLoc := r.loc, endLoc := r'.loc, fileIndex := inFile, index := s.index } }
          = .ok (ps, .cont)) :
    readLoop orc c p (fuel + 1) r inFile s =
      readLoop orc c p fuel r' (inFile + 1) { s with sts := ps.sts, out := ps.w, index := s.index + 1 } := by
  rw [readLoop]
  simp [hv, hkeep, hp]

/-- a top-level scalar skipped by `--only-objects-and-arrays` is not counted -/
theorem skipped_scalar_not_counted (c : Cfg) (p : Pipeline) (fuel : Nat) (r r' : Reader) (inFile : Nat)
    (s : RunState) (v : JV)
    (hv : r.nextJson = (.ok (some v), r')) (hskip : (c.onlyObjectsAndArrays && !v.isObjOrArr) = true) :
    readLoop orc c p (fuel + 1) r inFile s = readLoop orc c p fuel r' inFile s := by
  rw [readLoop]
  simp [hv, hskip]

/-- every file is read by a fresh reader (so no value spans two files), named after the file,
with `&index-in-file` restarting at 0, while `&index` continues -/
theorem files_sequential (c : Cfg) (p : Pipeline) (src : Source) (rest : List Source) (s s' : RunState) (r' : Reader)
    (h : readLoop orc c p (src.items.length + 2) (Reader.ofItems src.items src.name) 0 s = .ok (s', r', .cont)) :
    readSources orc c p (src :: rest) s =
      readSources orc c p rest { s' with pulled := s'.pulled ++ [r'.pulled] } := by
  simp [readSources, h]

theorem fresh_reader_per_file (src : Source) :
    (Reader.ofItems src.items src.name).cur = none ∧ (Reader.ofItems src.items src.name).eof = false ∧
    (Reader.ofItems src.items src.name).loc = { name := src.name, line := 1, col := 1 } ∧
    (Reader.ofItems src.items src.name).rest = src.items := ⟨rfl, rfl, rfl, rfl⟩

/-- `&file-name` is the name of the reader the value came from; the other selectors read the context -/
theorem selectors_read_context (ic : InputCtx) :
    ICtxKind.get .index ic = some (.num (.pos ic.index)) ∧
    ICtxKind.get .indexInFile ic = some (.num (.pos ic.fileIndex)) ∧
    ICtxKind.get .fileName ic = ic.startLoc.name.map JV.str ∧
    ICtxKind.get .startLine ic = some (.num (.pos ic.startLoc.line)) ∧
    ICtxKind.get .startChar ic = some (.num (.pos ic.startLoc.col)) ∧
    ICtxKind.get .endLine ic = some (.num (.pos ic.endLoc.line)) ∧
    ICtxKind.get .endChar ic = some (.num (.pos ic.endLoc.col)) := ⟨rfl, rfl, rfl, rfl, rfl, rfl, rfl⟩

/-- non-vacuity / sanity: line and column of "ab\ncd" after 4 bytes is (2, 2) -/
example : lineCol [97, 98, 10, 99] = (2, 2) := by decide


/-! ### ordinals, for whole runs -/

/-- `&index` is exact: the k-th row read in the run (all files together, skipped scalars and malformed regions
not counted) carries index k -/
theorem index_exact (c : Cfg) (sources : List Source) (k : Nat) (ctx : Ctx)
    (h : (RunSpec.ctxsOfSources c sources 0)[k]? = some ctx) : ctx.ictx.map (·.index) = some k :=
  RunSpec.index_exact c sources k ctx h

/-- `&index-in-file` restarts at 0 in every file -/
theorem index_in_file_restarts (c : Cfg) (src : Source) (idx k : Nat) (ctx : Ctx)
    (h : (RunSpec.ctxsOf c (src.items.length + 2) (Reader.ofItems src.items src.name) 0 idx)[k]? = some ctx) :
    ctx.ictx.map (·.fileIndex) = some k := RunSpec.fileIndex_restarts c src idx k ctx h

/-- files are read one after the other: the rows of `f1 :: rest` are the rows of `f1` followed by the rows of
`rest`, the run index running on — no value spans two files (each file gets a fresh reader) -/
theorem files_concatenate (c : Cfg) (s1 : Source) (rest : List Source) (idx : Nat) :
    RunSpec.ctxsOfSources c (s1 :: rest) idx
      = RunSpec.ctxsOf c (s1.items.length + 2) (Reader.ofItems s1.items s1.name) 0 idx
        ++ RunSpec.ctxsOfSources c rest
            (idx + (RunSpec.ctxsOf c (s1.items.length + 2) (Reader.ofItems s1.items s1.name) 0 idx).length) := rfl

end Jawk.C17
