/-
  C18 — invalid configurations are rejected before any input is read or output written.
-/
import Jawk.Model.Run
namespace Jawk.C18
open Jawk

variable (orc : Oracles)

/-- If building the pipeline fails, the run returns that error, neither writer is touched
and no source is opened (nothing is pulled). -/
theorem invalid_config_no_io (c : Cfg) (srcs : List Source) (wOut wErr : Writer) (f : Fail)
    (h : build orc c = .error f) :
    run orc c srcs wOut wErr =
      { result := .error f, stdout := wOut.out, stderr := wErr.out, pulled := [] } := by
  unfold run
  rw [h]

/-- corollary in the observable vocabulary of the property -/
theorem invalid_config_observables (c : Cfg) (srcs : List Source) (wOut wErr : Writer) (f : Fail)
    (h : build orc c = .error f) :
    (run orc c srcs wOut wErr).result = .error f ∧
    (run orc c srcs wOut wErr).stdout = wOut.out ∧
    (run orc c srcs wOut wErr).stderr = wErr.out ∧
    (run orc c srcs wOut wErr).pulled = [] := by
  rw [invalid_config_no_io orc c srcs wOut wErr f h]
  exact ⟨rfl, rfl, rfl, rfl⟩

/-- output options that do not belong to the chosen style make `build` fail -/
theorem style_option_mismatch_rejected (c : Cfg)
    (h : (c.style = .csv ∧ (c.jsonOpts.isSome ∨ c.textOpts.isSome)) ∨
         (c.style = .text ∧ c.jsonOpts.isSome) ∨
         (c.style = .json ∧ c.textOpts.isSome)) :
    ∃ f, build orc c = .error f := by
  have hs : ∃ e, buildSink c = .error e := by
    unfold buildSink
    rcases h with ⟨hs, hj | ht⟩ | ⟨hs, hj⟩ | ⟨hs, ht⟩
    · simp [hs, hj]
    · simp [hs, ht]
      split <;> simp
    · simp [hs, hj]
    · simp [hs, ht]
  obtain ⟨e, he⟩ := hs
  refine ⟨.config e, ?_⟩
  unfold build
  simp [he, cfgErr, bind, Except.bind]

/-- the csv preset always asks for a header row (re-checked against the generated preset) -/
theorem csv_has_headers : csvOpts.headers = true := by decide

/-- csv without a selection: the header cannot be written, the run fails at `start`,
before any source is read, with nothing written -/
theorem csv_without_titles_rejected (c : Cfg) (srcs : List Source) (wOut wErr : Writer) (p : Pipeline)
    (hb : build orc c = .ok p) (hs : ∃ sep, p.sink = .text csvOpts sep) (ht : p.titles = []) :
    (run orc c srcs wOut wErr).result = .error .invalidInput ∧
    (run orc c srcs wOut wErr).stdout = wOut.out ∧
    (run orc c srcs wOut wErr).pulled = [] := by
  obtain ⟨sep, hsink⟩ := hs
  unfold run
  rw [hb]
  simp [sinkStart, hsink, ht, csv_has_headers]

/-- a sort direction other than ASC / DESC (any letter case) or nothing is rejected,
whatever the selection in front of it -/
theorem bad_direction_rejected (s : Str) (e : Expr) (t : Str)
    (hparts : parseSorterParts s = .ok (e, t))
    (hdir : (trimStr t).map upperChar ≠ [] ∧ (trimStr t).map upperChar ≠ "ASC".toList ∧
            (trimStr t).map upperChar ≠ "DESC".toList) :
    parseSorter s = .error "UnknownOrder" := by
  unfold parseSorter
  rw [hparts]
  obtain ⟨h0, h1, h2⟩ := hdir
  simp at h1 h2
  simp [directionOf, h0, h1, h2]

/-- and such a `--sort-by` makes the whole configuration fail -/
theorem bad_direction_fails_build (c : Cfg) (s : Str) (hs : s ∈ c.sorts)
    (hbad : ∃ msg, parseSorter s = .error msg) (hsink : ∃ k, buildSink c = .ok k)
    (hgroup : c.group = none) :
    ∃ f, build orc c = .error f := by
  obtain ⟨msg, hmsg⟩ := hbad
  obtain ⟨k, hk⟩ := hsink
  have hmap : ∀ (l : List Str), s ∈ l → ∃ f, mapRes (fun s => cfgErr (parseSorter s)) l = .error f := by
    intro l
    induction l with
    | nil => intro h; cases h
    | cons x xs ih =>
      intro h
      unfold mapRes
      by_cases hx : x = s
      · subst hx
        exact ⟨.config msg, by simp [hmsg, cfgErr, bind, Except.bind]⟩
      · have : s ∈ xs := by
          cases h with
          | head => exact absurd rfl hx
          | tail _ h' => exact h'
        obtain ⟨f, hf⟩ := ih this
        cases hxp : cfgErr (parseSorter x) with
        | error e => exact ⟨e, by simp [bind, Except.bind]⟩
        | ok v => exact ⟨f, by simp [hf, bind, Except.bind]⟩
  obtain ⟨f, hf⟩ := hmap c.sorts hs
  refine ⟨f, ?_⟩
  simp only [cfgErr] at hf
  unfold build
  simp [hk, cfgErr, hgroup, hf, bind, Except.bind]

/-- the direction is case-insensitive and an omitted direction is ascending -/
theorem direction_cases :
    (directionOf []).toOption = some false ∧
    (directionOf [' ', 'a', 's', 'c']).toOption = some false ∧
    (directionOf [' ', 'A', 's', 'C', ' ']).toOption = some false ∧
    (directionOf ['D', 'E', 'S', 'C']).toOption = some true ∧
    (directionOf [' ', 'd', 'E', 's', 'C']).toOption = some true ∧
    (directionOf ['u', 'p']).toOption = none := by decide

/-- non-vacuity: a configuration that `build` rejects exists (csv with a JSON option) -/
example : ∃ f, build {} { style := .csv, jsonOpts := some {} } = .error f :=
  style_option_mismatch_rejected {} _ (Or.inl ⟨rfl, Or.inl rfl⟩)

end Jawk.C18
