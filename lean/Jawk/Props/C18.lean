/-
  C18 — invalid configurations are rejected before any input is read or output written.
-/
import Jawk.Lemmas.ParseRender
import Jawk.Model.Run
import Jawk.Lemmas.ArgsOrder
namespace Jawk.C18
open Jawk

variable (orc : Oracles)

/-- If building the pipeline fails, the run returns that error, neither writer is touched
and no source is opened (nothing is pulled). -/
theorem invalid_config_no_io (c : Cfg) (srcs : List Source) (wOut wErr : Writer) (f : Fail)
    (h : build orc c = .error f) :
    run orc c srcs wOut wErr =
      { result := .error f, stdout := wOut.out, stderr := wErr.out, pulled := [] } := by
  unfold run
  rw [h]

/-- corollary in the observable vocabulary of the property -/
theorem invalid_config_observables (c : Cfg) (srcs : List Source) (wOut wErr : Writer) (f : Fail)
    (h : build orc c = .error f) :
    (run orc c srcs wOut wErr).result = .error f ∧
    (run orc c srcs wOut wErr).stdout = wOut.out ∧
    (run orc c srcs wOut wErr).stderr = wErr.out ∧
    (run orc c srcs wOut wErr).pulled = [] := by
  rw [invalid_config_no_io orc c srcs wOut wErr f h]
  exact ⟨rfl, rfl, rfl, rfl⟩

/-- output options that do not belong to the chosen style make `build` fail -/
theorem style_option_mismatch_rejected (c : Cfg)
    (h : (c.style = .csv ∧ (c.jsonOpts.isSome ∨ c.textOpts.isSome)) ∨
         (c.style = .text ∧ c.jsonOpts.isSome) ∨
         (c.style = .json ∧ c.textOpts.isSome)) :
    ∃ f, build orc c = .error f := by
  have hs : ∃ e, buildSink c = .error e := by
    unfold buildSink
    rcases h with ⟨hs, hj | ht⟩ | ⟨hs, hj⟩ | ⟨hs, ht⟩
    · simp [hs, hj]
    · simp [hs, ht]
      split <;> simp
    · simp [hs, hj]
    · simp [hs, ht]
  obtain ⟨e, he⟩ := hs
  refine ⟨.config e, ?_⟩
  unfold build
  simp [he, cfgErr, bind, Except.bind]

/-- the csv preset always asks for a header row (re-checked against the generated preset) -/
theorem csv_has_headers : csvOpts.headers = true := by decide

/-- csv without a selection: the header cannot be written, the run fails at `start`,
before any source is read, with nothing written -/
theorem csv_without_titles_rejected (c : Cfg) (srcs : List Source) (wOut wErr : Writer) (p : Pipeline)
    (hb : build orc c = .ok p) (hs : ∃ sep, p.sink = .text csvOpts sep) (ht : p.titles = []) :
    (run orc c srcs wOut wErr).result = .error .invalidInput ∧
    (run orc c srcs wOut wErr).stdout = wOut.out ∧
    (run orc c srcs wOut wErr).pulled = [] := by
  obtain ⟨sep, hsink⟩ := hs
  unfold run
  rw [hb]
  simp [sinkStart, hsink, ht, csv_has_headers]

/-- a sort direction other than ASC / DESC (any letter case) or nothing is rejected,
whatever the selection in front of it -/
theorem bad_direction_rejected (s : Str) (e : Expr) (t : Str)
    (hparts : parseSorterParts s = .ok (e, t))
    (hdir : (trimStr t).map upperChar ≠ [] ∧ (trimStr t).map upperChar ≠ "ASC".toList ∧
            (trimStr t).map upperChar ≠ "DESC".toList) :
    parseSorter s = .error "UnknownOrder" := by
  unfold parseSorter
  rw [hparts]
  obtain ⟨h0, h1, h2⟩ := hdir
  simp at h1 h2
  simp [directionOf, h0, h1, h2]

/-- and such a `--sort-by` makes the whole configuration fail -/
theorem bad_direction_fails_build (c : Cfg) (s : Str) (hs : s ∈ c.sorts)
    (hbad : ∃ msg, parseSorter s = .error msg) (hsink : ∃ k, buildSink c = .ok k)
    (hgroup : c.group = none) :
    ∃ f, build orc c = .error f := by
  obtain ⟨msg, hmsg⟩ := hbad
  obtain ⟨k, hk⟩ := hsink
  have hmap : ∀ (l : List Str), s ∈ l → ∃ f, mapRes (fun s => cfgErr (parseSorter s)) l = .error f := by
    intro l
    induction l with
    | nil => intro h; cases h
    | cons x xs ih =>
      intro h
      unfold mapRes
      by_cases hx : x = s
      · subst hx
        exact ⟨.config msg, by simp [hmsg, cfgErr, bind, Except.bind]⟩
      · have : s ∈ xs := by
          cases h with
          | head => exact absurd rfl hx
          | tail _ h' => exact h'
        obtain ⟨f, hf⟩ := ih this
        cases hxp : cfgErr (parseSorter x) with
        | error e => exact ⟨e, by simp [bind, Except.bind]⟩
        | ok v => exact ⟨f, by simp [hf, bind, Except.bind]⟩
  obtain ⟨f, hf⟩ := hmap c.sorts hs
  refine ⟨f, ?_⟩
  simp only [cfgErr] at hf
  unfold build
  simp [hk, cfgErr, hgroup, hf, bind, Except.bind]

/-- the direction is case-insensitive and an omitted direction is ascending -/
theorem direction_cases :
    (directionOf []).toOption = some false ∧
    (directionOf [' ', 'a', 's', 'c']).toOption = some false ∧
    (directionOf [' ', 'A', 's', 'C', ' ']).toOption = some false ∧
    (directionOf ['D', 'E', 'S', 'C']).toOption = some true ∧
    (directionOf [' ', 'd', 'E', 's', 'C']).toOption = some true ∧
    (directionOf ['u', 'p']).toOption = none := by decide

/-- non-vacuity: a configuration that `build` rejects exists (csv with a JSON option) -/
example : ∃ f, build {} { style := .csv, jsonOpts := some {} } = .error f :=
  style_option_mismatch_rejected {} _ (Or.inl ⟨rfl, Or.inl rfl⟩)


/-! ### what the expression parser accepts is well-formed; the rest is rejected (helper `Jawk/Lemmas/ParseRender.lean`) -/

/-- every expression that parses — in any option — has, at every call node, a function of the table regenerated
from the source and an argument count within that function's bounds -/
theorem parsed_ast_well_formed {s : Str} {e : Expr} (h : parseWholeExpr s = .ok e) : PR.WellFormed e :=
  PR.parseWholeExpr_well_formed h

theorem well_formed_call (fn : String) (args : List Expr) :
    PR.WellFormed (.call fn args) ↔ PR.ArityOK fn args.length ∧ ∀ a ∈ args, PR.WellFormed a :=
  PR.wellFormed_call fn args

/-- an unknown function name is rejected -/
theorem unknown_function_rejected (name : Str) (fuel : Nat) (r : Reader)
    (h : findFunction (String.ofList (PR.splitDot name).1) = none) :
    PR.resolveCall name fuel r = (.error (.unknownFunction (PR.splitDot name).1), r) :=
  PR.unknown_function_rejected name fuel r h

/-- too few / too many arguments are rejected, anything within the bounds is accepted -/
theorem arity_rejected (name : Str) (fuel : Nat) (sig : FnSig) (r r1 r2 : Reader) (args : List Expr)
    (b : Option Byte)
    (h : findFunction (String.ofList (PR.splitDot name).1) = some sig)
    (hargs : parseArgs fuel (PR.splitDot name).2 r = (.ok args, r1))
    (hnext : Reader.next r1 = (.ok b, r2)) :
    (args.length < sig.min → PR.resolveCall name fuel r = (.error (.missingArgument sig.name), r2)) ∧
    (∀ m, sig.max = some m → sig.min ≤ args.length → m < args.length →
      PR.resolveCall name fuel r = (.error (.tooManyArgument sig.name), r2)) ∧
    (sig.min ≤ args.length → (∀ m, sig.max = some m → args.length ≤ m) →
      PR.resolveCall name fuel r = (.ok (.call sig.name args), r2)) :=
  PR.arity_rejected name fuel sig r r1 r2 args b h hargs hnext

/-- trailing text after a complete expression is rejected in `--filter` / `--split-by` / `--group-by` … -/
theorem trailing_garbage_rejected (s : Str) (e : Expr) (r2 : Reader)
    (hget : readGetter (exprFuel s) (Reader.eatWhitespace (exprFuel s) (Reader.ofString s)).2 = (.ok e, r2))
    (ws : List Byte) (hws : ∀ x ∈ ws, Reader.isWs x = true) (b : Byte) (hb : Reader.isWs b = false) (rest : List Byte)
    (hr2 : RT.Ready r2 (ws ++ b :: rest)) (hf : ws.length < exprFuel s) :
    ∃ loc, parseWholeExpr s = .error (.expectingEof loc b) ∧
      parseOptionExpr s = .error (exprErrText (.expectingEof loc b)) :=
  PR.parseWholeExpr_trailing_garbage s e r2 hget ws hws b hb rest hr2 hf

/-- … and an unknown direction word after a `--sort-by` expression is rejected -/
theorem unknown_direction_rejected (s : Str) (e : Expr) (r2 : Reader)
    (hget : readGetter (exprFuel s) (Reader.eatWhitespace (exprFuel s) (Reader.ofString s)).2 = (.ok e, r2))
    (bs : List Byte) (hr2 : RT.Ready r2 bs) (hf : bs.length < exprFuel s) (t : Str)
    (hdec : utf8Decode? bs = some t)
    (hdir : (trimStr t).map upperChar ≠ [] ∧ (trimStr t).map upperChar ≠ "ASC".toList ∧
      (trimStr t).map upperChar ≠ "DESC".toList) :
    parseSorterParts s = .ok (e, t) ∧ parseSorter s = .error "UnknownOrder" :=
  PR.parseSorter_unknown_direction s e r2 hget bs hr2 hf t hdec hdir


/-! ### rejected by the command-line parser itself (model of clap: `Jawk/Model/Args.lean`)

`main` calls `Cli::parse()` before `go`: a rejected command line never reaches the code that opens the input
or builds the output; in the model the run is simply not defined for it (`parseArgs = none`). -/

/-- an option that may occur once given twice (under any of its names), a flag with a value, a value outside an
enumeration, a malformed number, an unknown option: each is rejected wherever it stands among valid arguments -/
theorem command_line_rejections :
    (Args.parseArgs ["--take=1".toList, "--select=.a".toList, "--limit=2".toList]).isNone = true ∧
    (Args.parseArgs ["--unique".toList, "x.json".toList, "--unique".toList]).isNone = true ∧
    (Args.parseArgs ["--merge".toList, "--group-by=.g".toList]).isNone = true ∧
    (Args.parseArgs ["--only-objects-and-arrays=true".toList]).isNone = true ∧
    (Args.parseArgs ["--on-error=Ignore".toList]).isNone = true ∧
    (Args.parseArgs ["--skip=abc".toList]).isNone = true ∧
    (Args.parseArgs ["--skip=".toList]).isNone = true ∧
    (Args.parseArgs ["--skip=18446744073709551616".toList]).isNone = true ∧
    (Args.parseArgs ["--no-such-option=1".toList]).isNone = true ∧
    (Args.parseArgs ["--skip=+1".toList, "--take=18446744073709551615".toList]).isSome = true := by
  decide +kernel

/-- the same rejections in the other spellings: one-letter names, clusters, values in an argument of their own -/
theorem command_line_rejections_short :
    (Args.parseArgs ["-u".toList, "x.json".toList, "--unique".toList]).isNone = true ∧
    (Args.parseArgs ["-uu".toList]).isNone = true ∧
    (Args.parseArgs ["-t".toList, "1".toList, "--limit".toList, "2".toList]).isNone = true ∧
    (Args.parseArgs ["-k".toList, "abc".toList]).isNone = true ∧
    (Args.parseArgs ["-kabc".toList]).isNone = true ∧
    (Args.parseArgs ["-k".toList]).isNone = true ∧
    (Args.parseArgs ["-c".toList, "--unique".toList]).isNone = true ∧
    (Args.parseArgs ["--choose".toList]).isNone = true ∧
    (Args.parseArgs ["-x".toList]).isNone = true ∧
    (Args.parseArgs ["-ux".toList]).isNone = true ∧
    (Args.parseArgs ["-u=1".toList]).isNone = true ∧
    (Args.parseArgs ["-o".toList, "xml".toList]).isNone = true ∧
    (Args.parseArgs ["-g".toList, "-g.a".toList]).isNone = true ∧
    (Args.parseArgs ["-uk".toList, "+1".toList, "-t18446744073709551615".toList, "-ocsv".toList]).isSome = true := by
  decide +kernel

/-- rejection does not depend on where the offending argument stands -/
theorem rejection_is_order_free (a b : List Str)
    (h : Args.SameUpToFamilyOrder (Args.lexAll a) (Args.lexAll b)) :
    (Args.parseArgs a).isNone = (Args.parseArgs b).isNone := by
  rw [Args.parseArgs_order_independent a b h]

end Jawk.C18
