/-
  C19 — 64-bit integers survive untouched; number-as-string arithmetic is exact.

  (1) The integer path: an integer in `[-2^63, 2^64)` is printed as its decimal digits and those
      digits read back through `str::parse::<u64/i64>` to the same integer — no floating point.
  (2) The number-as-string functions (`callNas` in `Model/Eval.lean`) are `Dec.parse` → `Dec.add /
      sub / mul / abs / normalize / cmp` → `Dec.render`; the theorems say these agree with exact
      rational arithmetic (`value : Dec → ℚ`) for decimals of ANY length, and that the printed result
      depends only on the value (spelling independence).
  Helper lemmas: `Jawk/Lemmas/DecimalExact.lean`.  (`bigdecimal`'s own arithmetic is NOT trusted:
  the correspondence run compares it with these definitions.)
-/
import Jawk.Lemmas.PassThrough
import Jawk.Lemmas.DecimalExact
namespace Jawk.C19
open Jawk DecExact

/-! ### 64-bit integers -/

/-- a non-negative integer below 2^64 prints as its digits and parses back exactly -/
theorem u64_print_parse (n : ℕ) (h : n < 2 ^ 64) :
    printNum (.pos n) = Nat.toDigits 10 n ∧ parseU64 (toBytes (printNum (.pos n))) = some n :=
  ⟨rfl, printNum_pos_roundtrip n h⟩

/-- a negative integer down to -2^63 prints as `-` and its digits and parses back exactly -/
theorem i64_print_parse (i : ℤ) (h : i < 0) (hlo : -(2 ^ 63 : ℤ) ≤ i) :
    ∃ ds : Str, printNum (.neg i) = '-' :: ds ∧ parseI64Neg (toBytes ds) = .ok i :=
  printNum_neg_roundtrip i h hlo

/-- digits are the integer: no rounding anywhere in the integer path -/
theorem digits_exact (n : ℕ) : F64.digitsToNat (Nat.toDigits 10 n) = n := digitsToNat_toDigits n

/-- one past the range is NOT silently wrapped: `parse::<u64>` reports overflow (the value then takes the double path) -/
theorem u64_overflow_detected (n : ℕ) (h : 2 ^ 64 ≤ n) :
    parseU64 ((Nat.toDigits 10 n).map (fun c => c.toNat.toUInt8)) = none := parseU64_overflow n h

/-! ### exact decimal arithmetic -/

theorem nas_add_exact (a b : Dec) : value (Dec.add a b) = value a + value b := value_add a b
theorem nas_sub_exact (a b : Dec) : value (Dec.sub a b) = value a - value b := value_sub a b
theorem nas_mul_exact (a b : Dec) : value (Dec.mul a b) = value a * value b := value_mul a b
theorem nas_abs_exact (a : Dec) : value a.abs = |value a| := value_abs a
theorem nas_normalise_value (a : Dec) : value (Dec.normalize a) = value a := value_normalize a

/-- all six comparison functions are decided by `Dec.cmp`, which is the comparison of the exact values -/
theorem nas_compare_exact (a b : Dec) : Dec.cmp a b = compare (value a) (value b) := cmp_exact a b

/-- spelling independence: the printed result depends only on the value -/
theorem nas_spelling_independent (a b : Dec) (h : value a = value b) : Dec.render a = Dec.render b :=
  render_eq_of_value_eq a b h

/-- canonical form: two decimals normalise to the same thing exactly when they denote the same number -/
theorem nas_canonical (a b : Dec) : Dec.normalize a = Dec.normalize b ↔ value a = value b :=
  normalize_eq_iff a b

/-- operands with the same values give identically printed sums (likewise `-`, `*`) -/
theorem nas_add_spelling (a a' b b' : Dec) (ha : value a = value a') (hb : value b = value b') :
    Dec.render (Dec.add a b) = Dec.render (Dec.add a' b') := render_add_congr a a' b b' ha hb

/-- trailing zeros after the point do not change the parsed value -/
theorem nas_trailing_zero (ds fs : Str) (hne : ds ≠ []) (hd : ds.all Char.isDigit = true)
    (hf : fs.all Char.isDigit = true) :
    (Dec.parse (ds ++ '.' :: (fs ++ ['0']))).map value = (Dec.parse (ds ++ '.' :: fs)).map value :=
  parse_trailing_zero ds fs hne hd hf

/-- `sign digits . digits (e|E) sign digits` parses to mantissa = all digits, scale = fraction length − exponent -/
theorem nas_parse_general (sg ds fs : Str) (ec : Char) (esg es : Str) (hsg : IsSign sg)
    (hd : ds.all Char.isDigit = true) (hf : fs.all Char.isDigit = true) (hne : ds ++ fs ≠ [])
    (hec : ec = 'e' ∨ ec = 'E') (hesg : IsSign esg) (hes : es.all Char.isDigit = true) (hene : es ≠ []) :
    Dec.parse ((sg ++ ds ++ '.' :: fs) ++ ec :: (esg ++ es)) =
      some ⟨sgnApply sg (F64.digitsToNat (ds ++ fs)), (fs.length : ℤ) - sgnApply esg (F64.digitsToNat es)⟩ :=
  parse_signed_dot_exp sg ds fs ec esg es hsg hd hf hne hec hesg hes hene

/-- `"round"`: the result is an integer within 1/2 of the operand -/
theorem nas_round_exact (a : Dec) :
    (∃ z : ℤ, value (Dec.round0 a) = z) ∧ |value (Dec.round0 a) - value a| ≤ 1 / 2 :=
  ⟨round0_isInt a, value_round0 a⟩

/-- `"%"`: truncated remainder, sign of the dividend, magnitude below the divisor -/
theorem nas_rem_exact (a b : Dec) (hb : value b ≠ 0) :
    (∃ t : ℤ, value (Dec.rem a b) = value a - value b * t) ∧ |value (Dec.rem a b)| < |value b| ∧
      0 ≤ value (Dec.rem a b) * value a := by
  obtain ⟨t, ht, _⟩ := rem_exact a b hb
  exact ⟨⟨t, ht⟩, rem_lt a b hb, rem_sign a b⟩

/-! ### non-vacuity -/
example : Dec.render (Dec.add ⟨1, 1⟩ ⟨2, 1⟩) = "0.3".toList := by decide   -- 0.1 + 0.2 = 0.3, exactly
example : Dec.cmp ⟨10, 1⟩ ⟨1, 0⟩ = .eq := by decide                        -- 1.0 = 1
example : parseU64 (toBytes (printNum (.pos (2 ^ 64 - 1)))) = some (2 ^ 64 - 1) := printNum_pos_roundtrip _ (by norm_num)


/-! ### no stage alters a row (helper file `Jawk/Lemmas/PassThrough.lean`)

The sorter converts keys to doubles only to COMPARE them; no stage rebuilds a value. -/

/-- `--filter`, `--unique`, `--sort-by`, `--skip` / `--take`: every row that comes out IS one of the rows that went in
(same input value, same selected values) — for any chain of them, any states, any evaluator -/
theorem rows_pass_untouched (ev : Expr → Ctx → Option JV) (cfgs : List StageCfg) (sts : List StageSt)
    (h : ∀ c ∈ cfgs, Pass.RowPreserving c = true) (rows : List Ctx) :
    ∀ r ∈ Pipe.specRows ev cfgs sts rows, r ∈ rows := Pass.specRows_mem_of_rowPreserving ev cfgs sts h rows

/-- with `--set` / `--select` as well: every output row has the input value of some input row, unchanged, and only
gained selected columns; as multisets, the input values that come out are among those that went in -/
theorem inputs_pass_untouched (ev : Expr → Ctx → Option JV) (cfgs : List StageCfg) (sts : List StageSt)
    (h : ∀ c ∈ cfgs, Pass.InputPreserving c = true) (rows : List Ctx) :
    (∀ r ∈ Pipe.specRows ev cfgs sts rows, ∃ r0 ∈ rows, r.input = r0.input ∧ r0.results <+: r.results) ∧
    Pass.SubMultiset ((Pipe.specRows ev cfgs sts rows).map (·.input)) (rows.map (·.input)) :=
  ⟨Pass.specRows_input_of_inputPreserving ev cfgs sts h rows, Pass.specRows_inputs_subMultiset ev cfgs sts h rows⟩

/-- `--merge` wraps the rows as they are; every member of a group is the built form of an input row -/
theorem collections_hold_rows_untouched (ev : Expr → Ctx → Option JV) (e : Expr) (cap : Option Nat) (rows : List Ctx) :
    Pipe.stageSpec ev .merge cap rows = [{ input := .arr (rows.map Ctx.build) }] ∧
    ∀ k vs, (k, vs) ∈ Pipe.groupOf ev e rows → ∀ v ∈ vs, ∃ r ∈ rows, ev e r = some (.str k) ∧ v = r.build :=
  ⟨rfl, fun k vs h => Pass.group_member_mem ev e rows k vs h⟩

/-- an extractor (`.k`, `#i`, nested) returns a sub-value of its input as stored: no number is ever rebuilt -/
theorem extractors_return_subvalues (steps : List Step) (v x : JV) (h : extractSteps steps v = some x) :
    Pass.SubValue x v := Pass.extractSteps_subValue steps v x h

end Jawk.C19
