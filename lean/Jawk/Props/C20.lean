/-
  C20 — the executable separates data from diagnostics and signals failure by exit code.
  `mainModel` mirrors `src/main.rs`; the process boundary (pipes, EPIPE, exit status
  encoding) is a failing writer and an integer (partial: tied to the real binary by K).
-/
import Jawk.Model.Run
import Jawk.Lemmas.LineBuffer
namespace Jawk.C20
open Jawk

variable (orc : Oracles)

/-- exit status 0 exactly when the run succeeded -/
theorem exit_zero_iff_ok (c : Cfg) (srcs : List Source) (fd1 fd2 : Writer) :
    (mainModel orc c srcs fd1 fd2).code = 0 ↔ (run orc c srcs fd1 fd2).result = .ok () := by
  simp only [mainModel]
  split <;> simp_all

/-- a failed run exits non-zero and puts a non-empty message on standard error -/
theorem failure_has_message (c : Cfg) (srcs : List Source) (fd1 fd2 : Writer) (f : Fail)
    (h : (run orc c srcs fd1 fd2).result = .error f) :
    (mainModel orc c srcs fd1 fd2).code ≠ 0 ∧
    ∃ msg, msg ≠ [] ∧ (mainModel orc c srcs fd1 fd2).fd2 = (run orc c srcs fd1 fd2).stderr ++ msg := by
  simp only [mainModel, h]
  refine ⟨by simp, utf8 (f.text ++ ['\n']), ?_, rfl⟩
  simp [utf8, List.flatMap_append]

/-- what reaches descriptor 1 is exactly what `go` wrote to its first writer: `main` passes
fd 1 as `stdout` and fd 2 as `stderr`, in that order -/
theorem fd1_is_go_stdout (c : Cfg) (srcs : List Source) (fd1 fd2 : Writer) :
    (mainModel orc c srcs fd1 fd2).fd1 = (run orc c srcs fd1 fd2).stdout := by
  simp only [mainModel]
  split <;> rfl

/-- a report written under `--on-error=stderr` goes to the error writer and leaves the
output writer untouched (one step of the read loop) -/
theorem stderr_report_step (c : Cfg) (p : Pipeline) (fuel : Nat) (r r' : Reader) (inFile : Nat) (s : RunState) (e : PErr)
    (hc : c.onError = .stderr) (hn : r.nextJson = (.error e, r')) (hrec : e.canRecover = true)
    (hw : (s.err.put (reportBytes e)).failed = false) :
    readLoop orc c p (fuel + 1) r inFile s =
      readLoop orc c p fuel r' inFile { s with err := s.err.put (reportBytes e) } := by
  rw [readLoop]
  simp [hn, hrec, hc, hw]

/-- under `--on-error=stdout` the same report goes to the output writer instead -/
theorem stdout_report_step (c : Cfg) (p : Pipeline) (fuel : Nat) (r r' : Reader) (inFile : Nat) (s : RunState) (e : PErr)
    (hc : c.onError = .stdout) (hn : r.nextJson = (.error e, r')) (hrec : e.canRecover = true)
    (hw : (s.out.put (reportBytes e)).failed = false) :
    readLoop orc c p (fuel + 1) r inFile s =
      readLoop orc c p fuel r' inFile { s with out := s.out.put (reportBytes e) } := by
  rw [readLoop]
  simp [hn, hrec, hc, hw]

/-! ### the line buffer between `go` and descriptor 1 (finding F25, repaired) -/

/-- as long as no write has failed, what descriptor 1 got followed by what is still buffered is exactly what the run wrote,
in order — for every sequence of writes, every buffer size, every failing offset of the descriptor -/
theorem buffered_stdout_conservation (cap : Nat) (ws : List (List Byte)) (s : LineBuffer.LW)
    (h : (LineBuffer.writes cap s ws).dev.failed = false) :
    (LineBuffer.writes cap s ws).total = s.total ++ ws.flatten ∧ s.dev.failed = false :=
  LineBuffer.conservation cap ws s h

/-- `main` flushes after a successful run: exit status 0 means every byte `go` wrote reached descriptor 1 -/
theorem exit_zero_means_delivered (cap : Nat) (dev : Writer) (ws : List (List Byte))
    (h : (LineBuffer.flushedMain cap dev ws).1 = 0) :
    (LineBuffer.flushedMain cap dev ws).2.out = dev.out ++ ws.flatten :=
  LineBuffer.flushed_main_delivers cap dev ws h

/-- F25 as it was: without that flush a row that does not end with a line feed is lost on a full device and the exit
status is 0; with it the same run exits 255 (replayed on the binary by the C20 cases with `--row-seperator=,`) -/
theorem unflushed_exit_loses_output :
    (LineBuffer.unflushedMain 1024 { room := some 0 } [[49, 44]]).1 = 0 ∧
    (LineBuffer.unflushedMain 1024 { room := some 0 } [[49, 44]]).2.out = [] ∧
    (LineBuffer.flushedMain 1024 { room := some 0 } [[49, 44]]).1 = 255 :=
  LineBuffer.unflushed_main_loses

/-- non-vacuity: an invalid configuration is a failing run (exit code 255, message on fd 2) -/
example : (mainModel {} { style := .csv, jsonOpts := some {} } [] {} {}).code = 255 := by decide

end Jawk.C20
