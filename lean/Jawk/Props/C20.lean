/-
  C20 — the executable separates data from diagnostics and signals failure by exit code.
  `mainModel` mirrors `src/main.rs`; the process boundary (pipes, EPIPE, exit status
  encoding) is a failing writer and an integer (partial: tied to the real binary by K).
-/
import Jawk.Model.Run
namespace Jawk.C20
open Jawk

variable (orc : Oracles)

/-- exit status 0 exactly when the run succeeded -/
theorem exit_zero_iff_ok (c : Cfg) (srcs : List Source) (fd1 fd2 : Writer) :
    (mainModel orc c srcs fd1 fd2).code = 0 ↔ (run orc c srcs fd1 fd2).result = .ok () := by
  simp only [mainModel]
  split <;> simp_all

/-- a failed run exits non-zero and puts a non-empty message on standard error -/
theorem failure_has_message (c : Cfg) (srcs : List Source) (fd1 fd2 : Writer) (f : Fail)
    (h : (run orc c srcs fd1 fd2).result = .error f) :
    (mainModel orc c srcs fd1 fd2).code ≠ 0 ∧
    ∃ msg, msg ≠ [] ∧ (mainModel orc c srcs fd1 fd2).fd2 = (run orc c srcs fd1 fd2).stderr ++ msg := by
  simp only [mainModel, h]
  refine ⟨by simp, utf8 (f.text ++ ['\n']), ?_, rfl⟩
  simp [utf8, List.flatMap_append]

/-- what reaches descriptor 1 is exactly what `go` wrote to its first writer: `main` passes
fd 1 as `stdout` and fd 2 as `stderr`, in that order -/
theorem fd1_is_go_stdout (c : Cfg) (srcs : List Source) (fd1 fd2 : Writer) :
    (mainModel orc c srcs fd1 fd2).fd1 = (run orc c srcs fd1 fd2).stdout := by
  simp only [mainModel]
  split <;> rfl

/-- a report written under `--on-error=stderr` goes to the error writer and leaves the
output writer untouched (one step of the read loop) -/
theorem stderr_report_step (c : Cfg) (p : Pipeline) (fuel : Nat) (r r' : Reader) (inFile : Nat) (s : RunState) (e : PErr)
    (hc : c.onError = .stderr) (hn : r.nextJson = (.error e, r')) (hrec : e.canRecover = true)
    (hw : (s.err.put (reportBytes e)).failed = false) :
    readLoop orc c p (fuel + 1) r inFile s =
      readLoop orc c p fuel r' inFile { s with err := s.err.put (reportBytes e) } := by
  rw [readLoop]
  simp [hn, hrec, hc, hw]

/-- under `--on-error=stdout` the same report goes to the output writer instead -/
theorem stdout_report_step (c : Cfg) (p : Pipeline) (fuel : Nat) (r r' : Reader) (inFile : Nat) (s : RunState) (e : PErr)
    (hc : c.onError = .stdout) (hn : r.nextJson = (.error e, r')) (hrec : e.canRecover = true)
    (hw : (s.out.put (reportBytes e)).failed = false) :
    readLoop orc c p (fuel + 1) r inFile s =
      readLoop orc c p fuel r' inFile { s with out := s.out.put (reportBytes e) } := by
  rw [readLoop]
  simp [hn, hrec, hc, hw]

/-- non-vacuity: an invalid configuration is a failing run (exit code 255, message on fd 2) -/
example : (mainModel {} { style := .csv, jsonOpts := some {} } [] {} {}).code = 255 := by decide

end Jawk.C20
