/-
The tie between the model's byte classes, escape tables and defaults and the tables regenerated on every
run (`Jawk.Generated.*`): `ByteClasses` by running the real code on EVERY byte (`harness probe`,
cross-checked against the control flow where `extract/extract_tables.py` recognises it), `Presets` by
reading the literals of /repo/src.

Every theorem here says: "the model's definition is the table the code has now".  A change of the
code changes the generated table, and the theorem stops checking.  Statements over bytes
are proved for all 256 bytes by kernel evaluation and lifted by `forall_byte`.
-/
import Jawk.Generated.ByteClasses
import Jawk.Generated.Presets
import Jawk.Model.Run
import Jawk.Props.C06Steps

namespace Jawk.Tables
open Jawk Reader

/-- a Boolean statement checked for 0 … 255 holds for every byte -/
theorem forall_byte {p : Byte → Bool} (h : ∀ n : Fin 256, p (UInt8.ofNat n.val) = true) (b : Byte) :
    p b = true := by
  have := h ⟨b.toNat, UInt8.toNat_lt b⟩
  simpa using this

/-- `Reader.isWs` is exactly the set of bytes the real code skips between values. -/
theorem isWs_generated (b : Byte) : isWs b = Generated.whitespaceBytes.contains b.toNat := by
  have := forall_byte (p := fun b => isWs b == Generated.whitespaceBytes.contains b.toNat)
    (by decide +kernel) b
  simpa using this

/-- the stop set of `:name` / `@name` -/
theorem varStop_generated (b : Byte) : varStop b = Generated.varStopBytes.contains b.toNat := by
  have := forall_byte (p := fun b => varStop b == Generated.varStopBytes.contains b.toNat)
    (by decide +kernel) b
  simpa using this

/-- the stop set of a function name (`is_ascii_whitespace`, `is_ascii_control` expanded by the translator) -/
theorem fnNameStop_generated (b : Byte) : fnNameStop b = Generated.fnNameStopBytes.contains b.toNat := by
  have := forall_byte (p := fun b => fnNameStop b == Generated.fnNameStopBytes.contains b.toNat)
    (by decide +kernel) b
  simpa using this

/-- the stop set of a bare `.key` -/
theorem keyStop_generated (b : Byte) : keyStop b = Generated.keyStopBytes.contains b.toNat := by
  have := forall_byte (p := fun b => keyStop b == Generated.keyStopBytes.contains b.toNat)
    (by decide +kernel) b
  simpa using this

/-- the bytes that can start a value, by what the real code reads after them -/
def startsValue (b : Byte) : Bool := Generated.valueStartKinds.any (fun arm => arm.1.contains b.toNat)

/-- C06's `Garbage` is exactly the set of bytes on which the real code spends one byte and one recoverable
error where a value may start. -/
theorem garbage_generated (b : Byte) : C06.Garbage b = Generated.garbageBytes.contains b.toNat := by
  have := forall_byte (p := fun b => C06.Garbage b == Generated.garbageBytes.contains b.toNat)
    (by decide +kernel) b
  simpa using this

/-- every byte is white space, the start of a value, or garbage — exactly one of the three -/
theorem byte_classes_partition (b : Byte) :
    ((isWs b && !startsValue b && !C06.Garbage b) || (!isWs b && startsValue b && !C06.Garbage b)
      || (!isWs b && !startsValue b && C06.Garbage b)) = true := by
  exact forall_byte (p := fun b =>
    (isWs b && !startsValue b && !C06.Garbage b) || (!isWs b && startsValue b && !C06.Garbage b)
      || (!isWs b && !startsValue b && C06.Garbage b)) (by decide +kernel) b

/-- The first byte decides the kind of value, as in the model's `nextValue` chain: `t`, `f`, `n`, `"`,
`-`/digit, `[`, `{` (kinds compared as code points). -/
theorem valueStart_kinds :
    Generated.valueStartKinds =
      [([116], "true".toList.map Char.toNat),
       ([102], "false".toList.map Char.toNat),
       ([110], "null".toList.map Char.toNat),
       ([34], "string".toList.map Char.toNat),
       (45 :: (List.range 10).map (· + 48), "number".toList.map Char.toNat),
       ([91], "array".toList.map Char.toNat),
       ([123], "object".toList.map Char.toNat)] := by
  decide +kernel

/-- the two-character escapes `read_string` accepts, and the byte each one pushes -/
theorem simpleEscape_generated (b : Byte) :
    simpleEscape b = (Generated.parseEscapeArms.lookup b.toNat).map UInt8.ofNat := by
  have := forall_byte
    (p := fun b => simpleEscape b == (Generated.parseEscapeArms.lookup b.toNat).map UInt8.ofNat)
    (by decide +kernel) b
  simpa using this

/-- what the arms of the JSON `print_string` write for a character: `\` and one letter -/
def printArm (n : Nat) : Option Char :=
  match Generated.printEscapeArms.lookup n with
  | some [92, e] => some (Char.ofNat e)
  | _ => none

/-- every arm of `print_string` writes a backslash and one more character -/
theorem printEscapeArms_shape :
    Generated.printEscapeArms.all (fun a => match a.2 with | [92, _] => true | _ => false) = true := by
  decide +kernel

/-- `printEscape` is the arm table of the JSON `print_string` in the source, for every character. -/
theorem printEscape_generated (c : Char) : printEscape c = printArm c.toNat := by
  have key : ∀ d : Char, c.toNat = d.toNat → c = d := fun d h =>
    Char.ext (UInt32.toNat_inj.mp h)
  have neq : ∀ d : Char, c.toNat ≠ d.toNat → c ≠ d := fun d h e => h (by rw [e])
  by_cases h1 : c.toNat = 34
  · rw [key '"' h1]; decide
  by_cases h2 : c.toNat = 92
  · rw [key '\\' h2]; decide
  by_cases h3 : c.toNat = 47
  · rw [key '/' h3]; decide
  by_cases h4 : c.toNat = 8
  · rw [key '\x08' h4]; decide
  by_cases h5 : c.toNat = 12
  · rw [key '\x0c' h5]; decide
  by_cases h6 : c.toNat = 10
  · rw [key '\n' h6]; decide
  by_cases h7 : c.toNat = 13
  · rw [key '\r' h7]; decide
  by_cases h8 : c.toNat = 9
  · rw [key '\t' h8]; decide
  have e1 : printEscape c = none := by
    unfold printEscape
    simp [neq '"' h1, neq '\\' h2, neq '/' h3, neq '\x08' h4, neq '\x0c' h5, neq '\n' h6,
      neq '\r' h7, neq '\t' h8]
  have e2 : printArm c.toNat = none := by
    have b : ∀ n, c.toNat ≠ n → (c.toNat == n) = false := fun n h => by simp [h]
    unfold printArm
    simp only [Generated.printEscapeArms, List.lookup, b _ h1, b _ h2, b _ h3, b _ h4, b _ h5,
      b _ h6, b _ h7, b _ h8]
  rw [e1, e2]

/-- the characters the JSON printer writes unchanged: the source's `(' '..='~')` and, with
`utf8_strings`, everything above `'~'` -/
theorem printChar_generated (o : JsonOpts) (c : Char) (h : printEscape c = none) :
    printChar o c =
      if (Generated.printPlainRange.1 ≤ c.toNat ∧ c.toNat ≤ Generated.printPlainRange.2) ∨
          (o.utf8Strings = true ∧ Generated.printUtf8Above < c.toNat)
      then [c] else '\\' :: 'u' :: hex4 c.toNat := by
  unfold printChar
  rw [h]
  simp only [Generated.printPlainRange, Generated.printUtf8Above, Char.le_def, Char.lt_def]
  rfl

/-! ### defaults -/

private def onErrorName : OnError → String
  | .ignore => "Ignore" | .panic => "Panic" | .stderr => "Stderr" | .stdout => "Stdout"

/-- the `OnError` variants and the default one -/
theorem onError_generated :
    Generated.onErrorVariants = [OnError.ignore, .panic, .stderr, .stdout].map onErrorName ∧
    onErrorName ({} : Cfg).onError = Generated.onErrorDefault := by
  constructor <;> decide

/-- `--skip` defaults to the source's default, the row separator to the source's default -/
theorem cfg_defaults_generated :
    ({} : Cfg).skip = Generated.skipDefault ∧
    ({} : Cfg).rowSep = codesToStr Generated.rowSeparatorDefault := by
  constructor <;> decide

/-- `TextOutputOptions::default()` -/
theorem textDefaults_generated :
    let (sep, pre, post, headers, esc, nul, tru, fal, miss) := Generated.textDefaultCodes
    ({} : TextOpts) =
      { itemsSep := codesToStr sep, strPrefix := codesToStr pre, strPostfix := codesToStr post,
        headers := headers, escapes := esc.map codesToStr, nullKw := codesToStr nul,
        trueKw := codesToStr tru, falseKw := codesToStr fal, missingKw := miss.map codesToStr } := by
  decide +kernel

private def styleName : JsonStyle → String
  | .oneLine => "OneLine" | .consise => "Consise" | .pretty => "Pretty"

/-- `JsonOutputOptions::default()` -/
theorem jsonDefaults_generated :
    styleName ({} : JsonOpts).style = Generated.jsonDefaultStyle ∧
    ({} : JsonOpts).utf8Strings = Generated.jsonDefaultUtf8 := by
  constructor <;> decide

end Jawk.Tables
