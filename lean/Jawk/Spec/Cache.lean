/-
  A compile cache of bounded size (`RegexCache` over `cached::SizedCache`): abstract model
  with an arbitrary eviction choice, so the theorem covers any replacement policy.
-/
namespace Jawk.Spec

/-- cache state: (pattern, compiled) pairs -/
abbrev CacheSt (α : Type) := List (List Char × α)

/-- `compile_regex` with a cache of capacity `cap` (0 = no cache).  `evict` picks which entry
leaves when the cache is full (any function: LRU, FIFO, random …). -/
def compileCached {α} (compile : List Char → α) (evict : CacheSt α → CacheSt α) (cap : Nat)
    (s : CacheSt α) (p : List Char) : α × CacheSt α :=
  if cap = 0 then (compile p, s) else
  match s.find? (fun e => e.1 = p) with
  | some e => (e.2, s)
  | none =>
    let v := compile p
    let s' := if s.length ≥ cap then evict s else s
    (v, (p, v) :: s')

/-- every cached entry is the compilation of its pattern -/
def CacheInv {α} (compile : List Char → α) (s : CacheSt α) : Prop := ∀ e ∈ s, e.2 = compile e.1

end Jawk.Spec
