/-
  Specification-side CSV reader (RFC 4180), independent of the jawk model.

  Dialect: the common one that skips ONE blank directly after a comma (python's
  `skipinitialspace=True`), because jawk's csv preset separates items by comma + blank.

  Grammar read (RFC 4180 section 2, ABNF):
      record      = field *(COMMA [SP] field) (LF / CRLF / end of input)
      field       = escaped / non-escaped
      escaped     = DQUOTE *(TEXTDATA / COMMA / CR / LF / 2DQUOTE) DQUOTE
      non-escaped = *TEXTDATA            ; no comma, no quote, no CR, no LF
  The reader is STRICT: a quote or a bare CR inside an unquoted field, text after a closing
  quote, or an unterminated quoted field make it return `none`.
  As in the ABNF a field may be empty, so an empty line is a record with ONE empty unquoted
  field (python's `csv.reader` would return a row with zero fields for it).
  Core Lean only; every function is total (structural recursion or fuel).
-/
namespace Jawk.Csv

/-- a field read back: was it quoted, and its content (with `""` already undone) -/
abbrev Field := Bool × List Char

/-- put `c` in front of the content found by the rest of a scan -/
def consContent (c : Char) : Option (List Char × List Char) → Option (List Char × List Char)
  | none => none
  | some (s, rest) => some (c :: s, rest)

/-- Scanner of a quoted field, started just AFTER the opening quote.
`""` is a literal quote; a quote not followed by a quote closes the field; everything else
(commas, CR, LF included) is content.  Returns the content and the input after the closing quote;
`none` when the closing quote is missing. -/
def quotedTail : List Char → Option (List Char × List Char)
  | [] => none
  | [c] => if c = '"' then some ([], []) else none
  | c :: d :: cs =>
    if c = '"' then
      if d = '"' then consContent '"' (quotedTail cs)
      else some ([], d :: cs)
    else consContent c (quotedTail (d :: cs))

/-- Scanner of an unquoted field: the content runs up to (not including) the next comma, LF,
CR LF or the end of input; returns the content and the input starting AT that terminator.
A quote or a CR that is not followed by LF is not allowed in an unquoted field. -/
def unquotedTail : List Char → Option (List Char × List Char)
  | [] => some ([], [])
  | c :: cs =>
    if c = ',' ∨ c = '\n' then some ([], c :: cs)
    else if c = '\r' then (if cs.head? = some '\n' then some ([], c :: cs) else none)
    else if c = '"' then none
    else consContent c (unquotedTail cs)

/-- one field: quoted iff it starts with a quote; returns the field and the input after it -/
def readField (cs : List Char) : Option (Field × List Char) :=
  if cs.head? = some '"' then
    match quotedTail cs.tail with
    | none => none
    | some (s, rest) => some ((true, s), rest)
  else
    match unquotedTail cs with
    | none => none
    | some (s, rest) => some ((false, s), rest)

/-- What must follow a field.  `(true, rest)`: a comma (and one blank, if present) was consumed,
another field follows; `(false, rest)`: the record ended (LF, CR LF, or end of input). -/
def terminator : List Char → Option (Bool × List Char)
  | [] => some (false, [])
  | c :: cs =>
    if c = ',' then
      match cs with
      | d :: cs' => if d = ' ' then some (true, cs') else some (true, cs)
      | [] => some (true, [])
    else if c = '\n' then some (false, cs)
    else if c = '\r' then
      match cs with
      | d :: cs' => if d = '\n' then some (false, cs') else none
      | [] => none
    else none

/-- the fields of one record, at most `fuel` of them -/
def readFields : Nat → List Char → Option (List Field × List Char)
  | 0, _ => none
  | fuel + 1, cs =>
    match readField cs with
    | none => none
    | some (f, r) =>
      match terminator r with
      | none => none
      | some (false, rest) => some ([f], rest)
      | some (true, rest) =>
        match readFields fuel rest with
        | none => none
        | some (fs, rest') => some (f :: fs, rest')

/-- The fields of the first record and the input after the record's line break.
`none` on empty input (there is no record) and on malformed input.
Every field but the last consumes at least its comma, so `length + 1` fields is enough fuel. -/
def readRecord (cs : List Char) : Option (List Field × List Char) :=
  if cs = [] then none else readFields (cs.length + 1) cs

/-- all records of a text (fuel: every record of a non-empty input consumes at least one
character or ends the input) -/
def readAllAux : Nat → List Char → Option (List (List Field))
  | 0, _ => none
  | fuel + 1, cs =>
    if cs = [] then some [] else
    match readRecord cs with
    | none => none
    | some (fs, rest) =>
      match readAllAux fuel rest with
      | none => none
      | some rows => some (fs :: rows)

def readAll (cs : List Char) : Option (List (List Field)) := readAllAux (cs.length + 1) cs

/-! ### Sanity checks of the reader (evaluated by the kernel) -/

example : readRecord "a,b, c\nrest".toList
    = some ([(false, "a".toList), (false, "b".toList), (false, "c".toList)], "rest".toList) := by
  decide
example : readRecord "\"a\"\"b,\r\nc\",x\r\ny".toList
    = some ([(true, "a\"b,\r\nc".toList), (false, "x".toList)], "y".toList) := by decide
example : readRecord "a,,  b".toList
    = some ([(false, "a".toList), (false, []), (false, " b".toList)], []) := by decide
example : readRecord "\"\",\n".toList = some ([(true, []), (false, [])], []) := by decide
example : readRecord "\nx".toList = some ([(false, [])], "x".toList) := by decide
example : readRecord [] = none := by decide
example : readRecord "a\"b\n".toList = none := by decide          -- quote in an unquoted field
example : readRecord "\"a\"b\n".toList = none := by decide        -- text after the closing quote
example : readRecord "\"a\n".toList = none := by decide           -- unterminated quoted field
example : readRecord "a\rb\n".toList = none := by decide          -- bare CR
example : readAll "a, \"b\"\n1, 2\n".toList
    = some [[(false, "a".toList), (true, "b".toList)], [(false, "1".toList), (false, "2".toList)]] := by
  decide

end Jawk.Csv
