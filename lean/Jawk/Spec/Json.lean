/-
  Specification for properties C01/C02: the conforming JSON texts (RFC 8259) and, for each of them,
  the value jawk has to read from it.

  `Ser v bs` = "the byte string `bs` is a conforming JSON text, and its value is `v`".
  Everything here is stated on bytes, independently of the reader model (`Jawk/Model/Reader.lean`,
  `Jawk/Model/Parser.lean`); the theorem `Jawk.Ser.parse_ser` (`Jawk/Lemmas/ParseSer.lean`) connects the two.

  Domain notes.
  * Strings: `\uXXXX` escapes denoting surrogates (`D800..DFFF`) are outside the property's domain.
  * Numbers: an integer text without fraction and exponent in `[-2^63, 2^64)` denotes that integer
    (`-0` denotes `neg 0`); every other number text denotes the double nearest to it (`str::parse::<f64>`),
    normalised by `From<f64>` (`Num.ofF64`, so `1E2` denotes the integer `100`); texts whose double is
    infinite (`1e999`) have no value and are not in `Ser`.
  * Objects: member names pairwise distinct; the value is the association list in text order.
-/
import Jawk.Model.Value
import Jawk.Model.F64
namespace Jawk.Ser

/-! ### Character classes -/

/-- JSON white space: space, line feed, carriage return, tab -/
def IsWs (b : Byte) : Prop := b = 32 ∨ b = 10 ∨ b = 13 ∨ b = 9

instance : DecidablePred IsWs := fun b => by unfold IsWs; infer_instance

/-- a (possibly empty) run of white space -/
def Ws (bs : List Byte) : Prop := ∀ b ∈ bs, IsWs b

instance : DecidablePred Ws := fun bs => by unfold Ws; infer_instance

/-- `0`..`9` -/
def IsDigit (b : Byte) : Prop := 48 ≤ b ∧ b ≤ 57

instance : DecidablePred IsDigit := fun b => by unfold IsDigit; infer_instance

/-- a non-empty run of digits -/
def DigitRun (ds : List Byte) : Prop := ds ≠ [] ∧ ∀ b ∈ ds, IsDigit b

instance : DecidablePred DigitRun := fun ds => by unfold DigitRun; infer_instance

/-- `int = 0 | [1-9][0-9]*`: a digit run without a leading zero, unless it is `0` itself -/
def IntPart (ds : List Byte) : Prop := DigitRun ds ∧ (ds.head? = some 48 → ds = [48])

instance : DecidablePred IntPart := fun ds => by unfold IntPart; infer_instance

/-- a property of an optional component -/
def OptAll {α} (p : α → Prop) : Option α → Prop
  | none => True
  | some a => p a

instance {α} (p : α → Prop) [DecidablePred p] : DecidablePred (OptAll p) := fun o => by
  cases o <;> unfold OptAll <;> infer_instance

/-- bytes as text (all bytes concerned are ASCII) -/
def asciiStr (bs : List Byte) : Str := bs.map (fun b => Char.ofNat b.toNat)

/-! ### Numbers -/

/-- `exp = (e|E) [+|-] [0-9]+` -/
structure ExpPart where
  /-- the marker is `E` (otherwise `e`) -/
  upper : Bool
  /-- `some true` = `-`, `some false` = `+`, `none` = no sign -/
  sign : Option Bool
  digits : List Byte

/-- a number text `[-] int [frac] [exp]`, parsed into its components -/
structure NumText where
  neg : Bool
  int : List Byte
  /-- the digits after the point -/
  frac : Option (List Byte)
  exp : Option ExpPart

def signBytes : Option Bool → List Byte
  | none => []
  | some false => [43]
  | some true => [45]

def fracBytes : Option (List Byte) → List Byte
  | none => []
  | some d => 46 :: d

def ExpPart.bytes (x : ExpPart) : List Byte :=
  (if x.upper then 69 else 101) :: (signBytes x.sign ++ x.digits)

/-- the spelling handed to `str::parse::<f64>`: marker `E`, a `+` sign dropped -/
def ExpPart.norm (x : ExpPart) : List Byte :=
  69 :: ((if x.sign = some true then [45] else []) ++ x.digits)

/-- the grammar: `int` has no superfluous leading zero, `frac` and `exp` have at least one digit -/
def NumText.WF (t : NumText) : Prop :=
  IntPart t.int ∧ OptAll DigitRun t.frac ∧ OptAll (fun x => DigitRun x.digits) t.exp

instance : DecidablePred NumText.WF := fun t => by unfold NumText.WF; infer_instance

/-- the bytes of the number text -/
def NumText.bytes (t : NumText) : List Byte :=
  (if t.neg then [45] else []) ++ t.int ++ fracBytes t.frac ++
    (match t.exp with | none => [] | some x => x.bytes)

/-- the normalised spelling of a number text -/
def NumText.norm (t : NumText) : List Byte :=
  (if t.neg then [45] else []) ++ t.int ++ fracBytes t.frac ++
    (match t.exp with | none => [] | some x => x.norm)

/-- The value of a number text (`none`: the text denotes an infinite double, jawk rejects it). -/
def NumText.value? (t : NumText) : Option Num :=
  let n := F64.digitsToNat (asciiStr t.int)
  if t.frac.isNone ∧ t.exp.isNone ∧ (if t.neg then n ≤ 2 ^ 63 else n < 2 ^ 64) then
    some (if t.neg then .neg (-(n : Int)) else .pos n)
  else
    match F64.parseDecimal (asciiStr t.norm) with
    | some f => if f.isFinite then some (Num.ofF64 f) else none
    | none => none

/-! ### Strings -/

/-- the character denoted by the two-character escape `\e` -/
def escapeChar? (e : Byte) : Option Char :=
  if e = 34 then some '"'            -- \"
  else if e = 92 then some '\\'      -- \\
  else if e = 47 then some '/'       -- \/
  else if e = 98 then some '\x08'    -- \b
  else if e = 102 then some '\x0c'   -- \f
  else if e = 110 then some '\n'     -- \n
  else if e = 114 then some '\r'     -- \r
  else if e = 116 then some '\t'     -- \t
  else none

/-- the value of a hexadecimal digit, either case -/
def hexDigit? (b : Byte) : Option Nat :=
  if 48 ≤ b ∧ b ≤ 57 then some (b.toNat - 48)
  else if 97 ≤ b ∧ b ≤ 102 then some (b.toNat - 87)
  else if 65 ≤ b ∧ b ≤ 70 then some (b.toNat - 55)
  else none

/-- One item between the quotes of a string and the character it denotes:
a raw UTF-8 encoded character (not `"`, `\`, or a C0 control), a two-character escape, or `\uXXXX`
denoting a code point of the Basic Multilingual Plane that is not a surrogate. -/
inductive StrItem : Char → List Byte → Prop
  | raw (c : Char) : c ≠ '"' → c ≠ '\\' → 0x20 ≤ c.toNat → StrItem c (String.utf8EncodeChar c)
  | esc (e : Byte) (c : Char) : escapeChar? e = some c → StrItem c [92, e]
  | uni (h1 h2 h3 h4 : Byte) (d1 d2 d3 d4 : Nat) :
      hexDigit? h1 = some d1 → hexDigit? h2 = some d2 → hexDigit? h3 = some d3 → hexDigit? h4 = some d4 →
      (((d1 * 16 + d2) * 16 + d3) * 16 + d4 < 0xD800 ∨ 0xDFFF < ((d1 * 16 + d2) * 16 + d3) * 16 + d4) →
      StrItem (Char.ofNat (((d1 * 16 + d2) * 16 + d3) * 16 + d4)) [92, 117, h1, h2, h3, h4]

/-- what stands between the quotes: a sequence of items, denoting the string of their characters -/
inductive StrBody : Str → List Byte → Prop
  | nil : StrBody [] []
  | cons {c : Char} {bs : List Byte} {s : Str} {rest : List Byte} :
      StrItem c bs → StrBody s rest → StrBody (c :: s) (bs ++ rest)

/-! ### Values -/

mutual
/-- `Ser v bs`: `bs` is a conforming JSON text with value `v` (no white space around it) -/
inductive Ser : JV → List Byte → Prop
  | null : Ser .null [110, 117, 108, 108]
  | true : Ser (.bool true) [116, 114, 117, 101]
  | false : Ser (.bool false) [102, 97, 108, 115, 101]
  | str {s : Str} {body : List Byte} : StrBody s body → Ser (.str s) (34 :: (body ++ [34]))
  | num {t : NumText} {n : Num} : t.WF → t.value? = some n → Ser (.num n) t.bytes
  | arrEmpty {w : List Byte} : Ws w → Ser (.arr []) (91 :: (w ++ [93]))
  | arr {w : List Byte} {vs : List JV} {body : List Byte} :
      Ws w → Elems vs body → Ser (.arr vs) (91 :: (w ++ (body ++ [93])))
  | objEmpty {w : List Byte} : Ws w → Ser (.obj []) (123 :: (w ++ [125]))
  | obj {w : List Byte} {kvs : List (Str × JV)} {body : List Byte} :
      Ws w → Members kvs body → (kvs.map (·.1)).Nodup → Ser (.obj kvs) (123 :: (w ++ (body ++ [125])))
/-- `v ws (, ws v ws)*`: a non-empty element list, each element followed by white space -/
inductive Elems : List JV → List Byte → Prop
  | one {v : JV} {bs w : List Byte} : Ser v bs → Ws w → Elems [v] (bs ++ w)
  | cons {v : JV} {bs w1 w2 : List Byte} {vs : List JV} {rest : List Byte} :
      Ser v bs → Ws w1 → Ws w2 → Elems vs rest → Elems (v :: vs) (bs ++ (w1 ++ 44 :: (w2 ++ rest)))
/-- `string ws : ws v ws (, ws string ws : ws v ws)*`: a non-empty member list -/
inductive Members : List (Str × JV) → List Byte → Prop
  | one {k : Str} {kb w1 w2 : List Byte} {v : JV} {bs w3 : List Byte} :
      Ser (.str k) kb → Ws w1 → Ws w2 → Ser v bs → Ws w3 →
      Members [(k, v)] (kb ++ (w1 ++ 58 :: (w2 ++ (bs ++ w3))))
  | cons {k : Str} {kb w1 w2 : List Byte} {v : JV} {bs w3 w4 : List Byte} {kvs : List (Str × JV)}
      {rest : List Byte} :
      Ser (.str k) kb → Ws w1 → Ws w2 → Ser v bs → Ws w3 → Ws w4 → Members kvs rest →
      Members ((k, v) :: kvs) (kb ++ (w1 ++ 58 :: (w2 ++ (bs ++ (w3 ++ 44 :: (w4 ++ rest))))))
end

/-- what may follow the text of `v` in a larger input: after a number text, no byte that would extend it
(a digit, `.`, `e`, `E`) -/
def Delimited : JV → List Byte → Prop
  | .num _, rest => ∀ b ∈ rest.head?, ¬ IsDigit b ∧ b ≠ 46 ∧ b ≠ 101 ∧ b ≠ 69
  | _, _ => True

end Jawk.Ser
