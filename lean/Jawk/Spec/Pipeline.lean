/-
  The pipeline as pure list transformations.

  Three layers, related by theorems in `Jawk/Lemmas/Pipeline*.lean`:

  1. the model of the Rust `Process` chain (`process` / `complete` in `Model/Stages.lean`):
     stateful stages threaded through an error monad with a writer that may fail;
  2. the same machine without effects (`processP` / `completeP` below): rows that reach the
     sink are collected in a list instead of being written, the evaluator is total;
  3. the documented composition (`specRows`): every stage is a function `List Ctx → List Ctx`
     (`split → filter → select → unique → sort → skip/take → group|merge`), no state, no `Break`.
-/
import Jawk.Model.Stages
import Jawk.Spec.Sort
namespace Jawk.Pipe
open Jawk

/-! ### assumptions under which the effects disappear -/

/-- the evaluator as a total function: an abort (panic / runaway recursion) counts as nothing;
the refinement theorems assume `NoAbort`, under which this is exactly `eval` -/
def evalT (orc : Oracles) (e : Expr) (ctx : Ctx) : Option JV :=
  match eval orc evalFuel e ctx with
  | .ok v => v
  | .error _ => none

def stageExprs : StageCfg → List Expr
  | .split e => [e]
  | .filter e => [e]
  | .select _ e => [e]
  | .sort k _ => [k]
  | .group e => [e]
  | _ => []

/-- no expression of the chain aborts, on any context -/
def NoAbort (orc : Oracles) (cfgs : List StageCfg) : Prop :=
  ∀ c ∈ cfgs, ∀ e ∈ stageExprs c, ∀ ctx : Ctx, ∃ v, eval orc evalFuel e ctx = .ok v

/-- a writer that never fails -/
def Unbounded (w : Writer) : Prop := w.room = none ∧ w.failed = false

def wappend (w : Writer) (bs : List Byte) : Writer := { w with out := w.out ++ bs }

/-- the bytes the sink writes for one row -/
def sinkBytes (sink : SinkCfg) (n : Nat) (ctx : Ctx) : List Byte :=
  match sink with
  | .json o sep => rowBytes (printJson o ctx.build) ++ rowBytes sep
  | .text o sep =>
    if n ≠ 0 then (textRow o sep n ctx.toList).flatten
    else rowBytes (textValue o ctx.input) ++ rowBytes sep

/-- states have the shape their stage expects (what `build` produces and `process` preserves) -/
def Shape : List StageCfg → List StageSt → Prop
  | [], _ => True
  | _ :: _, [] => False
  | c :: cs, st :: sts =>
    (match c, st with
      | .unique, .unique _ => True
      | .sort _ _, .sort _ _ => True
      | .limit _ _, .limit _ _ => True
      | .group _, .group _ => True
      | .merge, .merge _ => True
      | .preset _ _, _ => True
      | .split _, _ => True
      | .filter _, _ => True
      | .select _ _, _ => True
      | _, _ => False) ∧ Shape cs sts

/-! ### layer 2: the effect-free machine -/

/-- new stage states, rows delivered to the sink, decision -/
abbrev Step := List StageSt × List Ctx × Decision

/-- feed rows one at a time, stop at the first `Break` (the read loop, the splitter's loop) -/
def feedBrk (next : List StageSt → Ctx → Step) : List StageSt → List Ctx → Step
  | sts, [] => (sts, [], .cont)
  | sts, c :: cs =>
    match next sts c with
    | (s1, o1, .brk) => (s1, o1, .brk)
    | (s1, o1, .cont) =>
      let r := feedBrk next s1 cs
      (r.1, o1 ++ r.2.1, r.2.2)

/-- feed every row, ignoring the decisions (the sorter's `complete`) -/
def feedAll (next : List StageSt → Ctx → Step) : List StageSt → List Ctx → List StageSt × List Ctx
  | sts, [] => (sts, [])
  | sts, c :: cs =>
    let r1 := next sts c
    let r2 := feedAll next r1.1 cs
    (r2.1, r1.2.1 ++ r2.2)

variable (ev : Expr → Ctx → Option JV)

/-- `Process::process`, effect-free -/
def processP : (cfgs : List StageCfg) → List StageSt → Ctx → Step
  | [], _, ctx => ([], [ctx], .cont)
  | _ :: _, [], _ => ([], [], .cont)
  | c :: cs, st :: sts, ctx =>
    let pass (st' : StageSt) (r : Step) : Step := (st' :: r.1, r.2.1, r.2.2)
    let stay (st' : StageSt) : Step := (st' :: sts, [], .cont)
    match c with
    | .preset vars defs => pass st (processP cs sts ((ctx.withVariables vars).withDefinitions defs))
    | .split e =>
      match ev e ctx with
      | some (.arr l) => pass st (feedBrk (processP cs) sts (l.map ctx.withInput))
      | _ => stay st
    | .filter e =>
      match ev e ctx with
      | some (.bool true) => pass st (processP cs sts ctx)
      | _ => stay st
    | .select name e => pass st (processP cs sts (ctx.withResult name (ev e ctx)))
    | .unique =>
      match st with
      | .unique seen =>
        if seen.any (fun s => CtxKey.same s ctx.key) then stay st
        else pass (.unique (seen ++ [ctx.key])) (processP cs sts ctx)
      | _ => stay st
    | .sort key desc =>
      match st with
      | .sort data space =>
        match ev key ctx with
        | some k =>
          let r := sortStep desc k ctx (data, space)
          stay (.sort r.1 r.2)
        | none => stay st
      | _ => stay st
    | .limit skip take =>
      match st with
      | .limit skipped passed =>
        if skipped < skip then stay (.limit (skipped + 1) passed)
        else match take with
          | some limit =>
            if passed ≥ limit then (st :: sts, [], .brk)
            else
              let r := processP cs sts ctx
              (.limit skipped (passed + 1) :: r.1, r.2.1, if passed + 1 ≥ limit then .brk else .cont)
          | none => pass st (processP cs sts ctx)
      | _ => stay st
    | .group e =>
      match st with
      | .group data =>
        match ev e ctx with
        | some (.str key) => stay (.group (groupInsert key ctx.build data))
        | _ => stay st
      | _ => stay st
    | .merge =>
      match st with
      | .merge data => stay (.merge (data ++ [ctx.build]))
      | _ => stay st

def groupValue (data : List (Str × List JV)) : JV := .obj (data.map (fun (k, vs) => (k, JV.arr vs)))

/-- `Process::complete`, effect-free: the rows delivered to the sink at the end of input -/
def completeP : (cfgs : List StageCfg) → List StageSt → List Ctx
  | [], _ => []
  | _ :: _, [] => []
  | c :: cs, st :: sts =>
    match c, st with
    | .sort _ desc, .sort data _ =>
      let r := feedAll (processP ev cs) sts (bucketsEmit desc data)
      r.2 ++ completeP cs r.1
    | .group _, .group data => (processP ev cs sts { input := groupValue data }).2.1
    | .merge, .merge data => (processP ev cs sts { input := .arr data }).2.1
    | _, _ => completeP cs sts

/-- a whole run of the chain, as `go` drives it: feed until `Break`, then `complete` -/
def runP (cfgs : List StageCfg) (sts : List StageSt) (rows : List Ctx) : List Ctx :=
  let r := feedBrk (processP ev cfgs) sts rows
  r.2.1 ++ completeP ev cfgs r.1

/-- the same, never stopping early -/
def runAll (cfgs : List StageCfg) (sts : List StageSt) (rows : List Ctx) : List Ctx :=
  let r := feedAll (processP ev cfgs) sts rows
  r.2 ++ completeP ev cfgs r.1

/-! ### layer 3: the documented composition -/

def takeOpt {α} : Option Nat → List α → List α
  | none, l => l
  | some n, l => l.take n

/-- keep a row iff no earlier kept row (nor any key in `seen`) has the same key -/
def dedupFrom (seen : List CtxKey) : List Ctx → List Ctx
  | [] => []
  | c :: cs =>
    if seen.any (fun s => CtxKey.same s c.key) then dedupFrom seen cs
    else c :: dedupFrom (seen ++ [c.key]) cs

/-- rows with their sort key; rows whose key is absent are dropped -/
def keyed (key : Expr) (rows : List Ctx) : List (JV × Ctx) :=
  rows.filterMap (fun c => (ev key c).map (fun k => (k, c)))

/-- the group object: distinct string keys in first-seen order, each with its rows in arrival order -/
def groupOf (e : Expr) (rows : List Ctx) : List (Str × List JV) :=
  rows.foldl (fun data c => match ev e c with
    | some (.str k) => groupInsert k c.build data
    | _ => data) []

/-- one stage as a list function (`cap` = the bound of the sorter next to the limiter, if any) -/
def stageSpec : StageCfg → (cap : Option Nat) → List Ctx → List Ctx
  | .preset vars defs, _, rows => rows.map (fun c => (c.withVariables vars).withDefinitions defs)
  | .split e, _, rows => rows.flatMap (fun c => match ev e c with
      | some (.arr l) => l.map c.withInput
      | _ => [])
  | .filter e, _, rows => rows.filter (fun c => match ev e c with
      | some (.bool true) => true
      | _ => false)
  | .select name e, _, rows => rows.map (fun c => c.withResult name (ev e c))
  | .unique, _, rows => dedupFrom [] rows
  | .sort key desc, cap, rows =>
    takeOpt cap ((SortSpec.sortDir JV.cmp (·.1) desc (keyed ev key rows)).map (·.2))
  | .limit skip take, _, rows => takeOpt take (rows.drop skip)
  | .group e, _, rows => [{ input := groupValue (groupOf ev e rows) }]
  | .merge, _, rows => [{ input := .arr (rows.map Ctx.build) }]

def capOf : StageSt → Option Nat
  | .sort _ space => space
  | _ => none

/-- the documented composition, stage by stage, left to right -/
def specRows : List StageCfg → List StageSt → List Ctx → List Ctx
  | [], _, rows => rows
  | _ :: _, [], rows => rows
  | c :: cs, st :: sts, rows => specRows cs sts (stageSpec ev c (capOf st) rows)

/-- initial states (`build`): nothing seen, nothing buffered, nothing counted; the sorter's bound is free -/
def Initial : List StageCfg → List StageSt → Prop
  | [], _ => True
  | _ :: _, [] => False
  | c :: cs, st :: sts =>
    (match c, st with
      | .unique, .unique seen => seen = []
      | .sort _ _, .sort data _ => data = []
      | .limit _ _, .limit skipped passed => skipped = 0 ∧ passed = 0
      | .group _, .group data => data = []
      | .merge, .merge data => data = []
      | .preset _ _, _ => True
      | .split _, _ => True
      | .filter _, _ => True
      | .select _ _, _ => True
      | _, _ => False) ∧ Initial cs sts

/-- `--group-by` / `--merge`, when present, is the last stage (as `build` assembles it) -/
def GroupLast : List StageCfg → Prop
  | [] => True
  | .group _ :: cs => cs = []
  | .merge :: cs => cs = []
  | _ :: cs => GroupLast cs

end Jawk.Pipe
