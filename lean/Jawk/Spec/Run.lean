/-
  What a run reads, as a pure function: the rows (contexts) that the read loop hands to the pipeline
  for a list of sources, under a policy that skips malformed regions.  No pipeline, no writers.
  `Jawk/Lemmas/RunSpec.lean` proves that `run` writes exactly `specRows` of these rows.
-/
import Jawk.Model.Run
import Jawk.Spec.Pipeline
namespace Jawk.RunSpec
open Jawk

/-- the rows of one source: successive `nextJson` results, recoverable errors skipped, top-level scalars
dropped under `--only-objects-and-arrays`; each row carries its input context (start/end location, ordinal
in the file, ordinal in the run).  Stops at end of input or at an I/O error. -/
def ctxsOf (c : Cfg) : Nat → Reader → Nat → Nat → List Ctx
  | 0, _, _, _ => []
  | fuel + 1, r, inFile, idx =>
    match r.nextJson with
    | (.ok (some v), r') =>
      if c.onlyObjectsAndArrays && !v.isObjOrArr then ctxsOf c fuel r' inFile idx
      else
        { input := v, ictx := some { startLoc := r.loc, endLoc := r'.loc, fileIndex := inFile, index := idx } }
          :: ctxsOf c fuel r' (inFile + 1) (idx + 1)
    | (.ok none, _) => []
    | (.error e, r') => if e.canRecover then ctxsOf c fuel r' inFile idx else []

/-- the rows of a list of sources: file after file, `index` running on, `index-in-file` restarting -/
def ctxsOfSources (c : Cfg) : List Source → Nat → List Ctx
  | [], _ => []
  | src :: rest, idx =>
    let cs := ctxsOf c (src.items.length + 2) (Reader.ofItems src.items src.name) 0 idx
    cs ++ ctxsOfSources c rest (idx + cs.length)

/-- no I/O error item in any source -/
def CleanIO (sources : List Source) : Prop := ∀ s ∈ sources, ∀ it ∈ s.items, it ≠ RItem.err

/-- the header the sink writes at `start` (csv / `--headers`), as bytes -/
def headerBytes (p : Pipeline) : List Byte :=
  match p.sink with
  | .json _ _ => []
  | .text o sep =>
    if o.headers then (textRow o sep p.titles.length (p.titles.map (fun t => some (JV.str t)))).flatten else []

end Jawk.RunSpec
