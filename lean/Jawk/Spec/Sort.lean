/-
  List-level specification of sorting: stable insertion sort by a key under a
  three-way comparison, ascending and descending, and the abstract properties
  (`TotalPreorderCmp`) the comparison must have.  Core Lean only.
-/
namespace Jawk

/-- what `impl Ord` must provide: a total preorder presented as a three-way comparison -/
structure TotalPreorderCmp {α : Type} (cmp : α → α → Ordering) : Prop where
  refl : ∀ a, cmp a a = .eq
  swap : ∀ a b, cmp b a = (cmp a b).swap
  le_trans : ∀ a b c, cmp a b ≠ .gt → cmp b c ≠ .gt → cmp a c ≠ .gt

namespace SortSpec
variable {α κ : Type} (cmp : κ → κ → Ordering) (key : α → κ)

/-- ascending, stable: `x` goes after every element whose key is `≤` its own -/
def insertAsc (x : α) : List α → List α
  | [] => [x]
  | y :: ys => if cmp (key x) (key y) = .lt then x :: y :: ys else y :: insertAsc x ys

/-- descending, stable: `x` goes after every element whose key is `≥` its own -/
def insertDesc (x : α) : List α → List α
  | [] => [x]
  | y :: ys => if cmp (key x) (key y) = .gt then x :: y :: ys else y :: insertDesc x ys

def insertDir (desc : Bool) (x : α) (l : List α) : List α :=
  if desc then insertDesc cmp key x l else insertAsc cmp key x l

/-- stable sort of `l` (arrival order = list order) in the given direction -/
def sortDir (desc : Bool) (l : List α) : List α :=
  l.foldl (fun acc x => insertDir cmp key desc x acc) []

/-- non-decreasing (ascending) / non-increasing (descending) -/
def SortedDir (desc : Bool) (l : List α) : Prop :=
  l.Pairwise (fun a b => if desc then cmp (key a) (key b) ≠ .lt else cmp (key a) (key b) ≠ .gt)

end SortSpec
end Jawk
